//go:build verif

package stream

// C45 — linear stream pipelines compute exactly their list semantics.
//
// Bounded-exhaustive program enumeration: every composition of depth 0..D (D=3 quick, 4 thorough)
// over the stage alphabet below x the three fusion modes x the input lists is materialised on a
// real actor system (Source Of(input...) -> stages -> Collect sink) and compared, at quiescence,
// with the same composition evaluated on slices.
//
// Reference model (boring Go): a stream is a list plus a terminal (complete | error of stage #p).
// Every ordered stage is a causal list function; a TryMap that fails at its j-th input element
// truncates its output after j elements and sets the terminal to its own error (which therefore
// precedes, in stream order, every error of an upstream stage: those follow later input). The
// unordered ParallelMap may emit its results in ANY order, so the model is a set of possible
// streams: when no order-sensitive stage (Scan, Deduplicate, failing TryMap) follows an unordered
// ParallelMap the stream is kept as a multiset ("as a multiset for ParallelMap"); otherwise all
// distinct permutations are expanded (sound over-approximation of the in-flight window).
//
// Oracle at quiescence (statement of C45, nothing more):
//   - the stream has completed (handle.Done closed; decided at quiescence in virtual time);
//   - normal terminal expected: handle.Err()==nil and the collected list equals a possible list
//     (multiset-equal when marked unordered);
//   - stage error expected: handle.Err() is exactly that stage's error value; the statement does not
//     say which of the elements preceding the failing one must still be delivered, so only
//     "collected is a prefix (sub-multiset when unordered) of the possible list" is required.

import (
	"context"
	"errors"
	"fmt"
	"sort"
	"strings"
	"testing"
	"time"

	"github.com/tochemey/goakt/v4/actor"
	"github.com/tochemey/goakt/v4/internal/verif/vsched"
)

type c45Kind int

const (
	c45Map c45Kind = iota
	c45TryOK
	c45TryE0
	c45TryE2
	c45Filter
	c45FlatMap
	c45BatchFlatten
	c45BatchBufFlatten
	c45BatchSum
	c45Scan
	c45Dedup
	c45Buffer
	c45OPM
	c45PM
	c45NKinds
)

var c45KindName = [...]string{
	"Map", "TryMap", "TryMap!0", "TryMap!2", "Filter", "FlatMap", "Batch2.Flatten", "Batch2.Buffer1.Flatten", "Batch2.MapSum",
	"Scan", "Dedup", "Buffer2", "OrderedParallelMap2", "ParallelMap2",
}

// c45StageErr is the error value returned by the failing TryMap at pipeline position pos.
type c45StageErr struct{ pos int }

func (e *c45StageErr) Error() string { return fmt.Sprintf("c45 stage error at position %d", e.pos) }

// element functions (shared by implementation run and model)
func c45FMap(x int) int   { return 2*x + 1 }
func c45FTry(x int) int   { return x + 3 }
func c45FKeep(x int) bool { return x%2 != 0 }
func c45FFlat(x int) []int {
	switch ((x % 3) + 3) % 3 {
	case 0:
		return nil
	case 1:
		return []int{x}
	default:
		return []int{x, x + 10}
	}
}
func c45FBatchSum(b []int) int {
	v := 1000 * len(b)
	for _, x := range b {
		v += x
	}
	return v
}
func c45FScan(acc, x int) int { return acc + x }
func c45FOPM(x int) int       { return 3 * x }
func c45FPM(x int) int        { return x + 7 }

// c45Delay is the virtual time a ParallelMap function spends on element x: larger residues finish
// later, so a later element regularly overtakes an earlier one (the resequencing heap of
// OrderedParallelMap and the completion-order emission of ParallelMap are really exercised).
func c45Delay(x int) time.Duration {
	return time.Duration(((x%5)+5)%5) * time.Millisecond
}

func c45TryErrIndex(k c45Kind) int {
	switch k {
	case c45TryE0:
		return 0
	case c45TryE2:
		return 2
	}
	return -1
}

// c45Attach appends stage k (at pipeline position pos) to the real pipeline.
func c45Attach(src Source[int], k c45Kind, pos int) Source[int] {
	return c45AttachR(src, k, pos, nil)
}

// c45AttachR is c45Attach; resets (when non-nil) collects functions that put the harness-owned
// state of the user functions (the element counter of a failing TryMap) back to its initial value, so
// that a second materialisation of the same description sees the same user functions as the first.
func c45AttachR(src Source[int], k c45Kind, pos int, resets *[]func()) Source[int] {
	switch k {
	case c45Map:
		return src.Via(Map(c45FMap))
	case c45TryOK:
		return src.Via(TryMap(func(x int) (int, error) { return c45FTry(x), nil }))
	case c45TryE0, c45TryE2:
		j := c45TryErrIndex(k)
		n := 0
		e := &c45StageErr{pos: pos}
		if resets != nil {
			*resets = append(*resets, func() { n = 0 })
		}
		return src.Via(TryMap(func(x int) (int, error) {
			i := n
			n++
			if i == j {
				return 0, e
			}
			return c45FTry(x), nil
		}))
	case c45Filter:
		return src.Via(Filter(c45FKeep))
	case c45FlatMap:
		return src.Via(FlatMap(c45FFlat))
	case c45BatchFlatten:
		return Via(Via(src, Batch[int](2, 2*time.Millisecond)), Flatten[int]())
	case c45BatchBufFlatten:
		return Via(Via(Via(src, Batch[int](2, 2*time.Millisecond)), Buffer[[]int](1, BackpressureSource)), Flatten[int]())
	case c45BatchSum:
		// Batch made observable: every batch becomes 1000*len(batch)+sum(batch). maxWait is one hour of
		// virtual time (never reached by a case), so list semantics is "chunks of exactly 2, the last
		// one possibly shorter".
		return Via(Via(src, Batch[int](2, time.Hour)), Map(c45FBatchSum))
	case c45Scan:
		return Via(src, Scan(0, c45FScan))
	case c45Dedup:
		return src.Via(Deduplicate[int]())
	case c45Buffer:
		return src.Via(Buffer[int](2, BackpressureSource))
	case c45OPM:
		return src.Via(OrderedParallelMap(2, func(x int) int { time.Sleep(c45Delay(x)); return c45FOPM(x) }))
	case c45PM:
		return src.Via(ParallelMap(2, func(x int) int { time.Sleep(c45Delay(x)); return c45FPM(x) }))
	}
	panic("c45Attach: unknown kind")
}

// ---------------------------------------------------------------------------------------------
// reference model

// c45Stream is one possible stream: the element list plus the terminal. errs is the set (bitmask by
// pipeline position) of stages that fail on this stream in list semantics; 0 = completes normally.
// When several stages fail, list semantics alone does not say which error reaches the sink first
// (an error signal may legitimately overtake elements that are still buffered or in flight in a
// stage between the two), so every member of errs is an acceptable terminal error.
type c45Stream struct {
	seq       []int
	unordered bool // seq is a multiset (kept sorted)
	errs      uint64
}

func (s c45Stream) key() string {
	return fmt.Sprintf("%v|%v|%d", s.seq, s.unordered, s.errs)
}

func c45OrderSensitive(k c45Kind) bool {
	return k == c45Scan || k == c45Dedup || k == c45TryE0 || k == c45TryE2 || k == c45BatchSum
}

func c45IsBatch(k c45Kind) bool {
	return k == c45BatchFlatten || k == c45BatchBufFlatten || k == c45BatchSum
}

// c45BatchDev describes, for DIAGNOSIS of an observed failure only, a deviation of one Batch stage
// from list semantics: it delivers only the first keep elements of its input (any keep elements when
// the stream is a multiset) and (Batch2.MapSum only, where batch boundaries are visible) cuts them
// into batches of the given sizes instead of 2,2,..,rest.
type c45BatchDev struct {
	keep   int
	chunks []int // nil = list semantics
}

// c45Chunk cuts seq into batches: sizes from chunks while they last, then list semantics (2).
func c45Chunk(seq []int, chunks []int) [][]int {
	var out [][]int
	i := 0
	for _, c := range chunks {
		if i >= len(seq) {
			break
		}
		if i+c > len(seq) {
			c = len(seq) - i
		}
		out = append(out, seq[i:i+c])
		i += c
	}
	for i < len(seq) {
		c := 2
		if i+c > len(seq) {
			c = len(seq) - i
		}
		out = append(out, seq[i:i+c])
		i += c
	}
	return out
}

// c45ApplyOrdered applies a stage (ParallelMap treated as an ordered map) to one stream.
func c45ApplyOrdered(k c45Kind, pos int, in c45Stream, chunks []int) c45Stream {
	out := c45Stream{unordered: in.unordered, errs: in.errs}
	switch k {
	case c45Map:
		for _, x := range in.seq {
			out.seq = append(out.seq, c45FMap(x))
		}
	case c45TryOK:
		for _, x := range in.seq {
			out.seq = append(out.seq, c45FTry(x))
		}
	case c45TryE0, c45TryE2:
		j := c45TryErrIndex(k)
		for i, x := range in.seq {
			if i == j {
				out.errs |= 1 << uint(pos)
				break
			}
			out.seq = append(out.seq, c45FTry(x))
		}
	case c45Filter:
		for _, x := range in.seq {
			if c45FKeep(x) {
				out.seq = append(out.seq, x)
			}
		}
	case c45FlatMap:
		for _, x := range in.seq {
			out.seq = append(out.seq, c45FFlat(x)...)
		}
	case c45BatchFlatten, c45BatchBufFlatten, c45Buffer:
		out.seq = append(out.seq, in.seq...)
	case c45BatchSum:
		for _, b := range c45Chunk(in.seq, chunks) {
			out.seq = append(out.seq, c45FBatchSum(b))
		}
	case c45Scan:
		acc := 0
		for _, x := range in.seq {
			acc = c45FScan(acc, x)
			out.seq = append(out.seq, acc)
		}
	case c45Dedup:
		for i, x := range in.seq {
			if i == 0 || in.seq[i-1] != x {
				out.seq = append(out.seq, x)
			}
		}
	case c45OPM:
		for _, x := range in.seq {
			out.seq = append(out.seq, c45FOPM(x))
		}
	case c45PM:
		for _, x := range in.seq {
			out.seq = append(out.seq, c45FPM(x))
		}
	}
	if out.unordered {
		sort.Ints(out.seq)
	}
	return out
}

const c45MaxPermLen = 9      // ParallelMap outputs longer than this are not expanded into permutations
const c45MaxStreams = 400000 // cap of the possible-stream set

// c45Permutations calls f for every distinct permutation of xs.
func c45Permutations(xs []int, f func([]int)) {
	s := c45Sorted(xs)
	n := len(s)
	used := make([]bool, n)
	cur := make([]int, 0, n)
	var rec func()
	rec = func() {
		if len(cur) == n {
			f(append([]int(nil), cur...))
			return
		}
		for i := 0; i < n; i++ {
			if used[i] || (i > 0 && s[i] == s[i-1] && !used[i-1]) {
				continue
			}
			used[i] = true
			cur = append(cur, s[i])
			rec()
			cur = cur[:len(cur)-1]
			used[i] = false
		}
	}
	rec()
}

// c45SubMultisets calls f for every distinct sub-multiset of size t of the sorted list s.
func c45SubMultisets(s []int, t int, f func([]int)) {
	cur := make([]int, 0, t)
	var rec func(i int)
	rec = func(i int) {
		if len(cur) == t {
			f(append([]int(nil), cur...))
			return
		}
		if i >= len(s) || len(s)-i < t-len(cur) {
			return
		}
		// take s[i]
		cur = append(cur, s[i])
		rec(i + 1)
		cur = cur[:len(cur)-1]
		// skip all copies of s[i]
		j := i + 1
		for j < len(s) && s[j] == s[i] {
			j++
		}
		rec(j)
	}
	rec(0)
}

// c45Model returns the set of possible streams of the program on the input; ok=false when the
// permutation expansion would exceed the caps (the case then has no verdict).
// dev (nil for the verdict) is only used to DIAGNOSE an observed failure, never to accept one.
func c45Model(prog []c45Kind, input []int, dev []*c45BatchDev) (set []c45Stream, ok bool) {
	return c45ModelLens(prog, input, dev, nil)
}

// c45ModelLens is c45Model; when maxIn != nil it also records the longest possible input of every stage.
func c45ModelLens(prog []c45Kind, input []int, dev []*c45BatchDev, maxIn []int) (set []c45Stream, ok bool) {
	cur := []c45Stream{{seq: append([]int(nil), input...)}}
	for pos, k := range prog {
		if maxIn != nil {
			for _, s := range cur {
				if len(s.seq) > maxIn[pos] {
					maxIn[pos] = len(s.seq)
				}
			}
		}
		laterSensitive := false
		for _, k2 := range prog[pos+1:] {
			if c45OrderSensitive(k2) {
				laterSensitive = true
			}
		}
		seen := map[string]bool{}
		var next []c45Stream
		add := func(s c45Stream) {
			key := s.key()
			if !seen[key] {
				seen[key] = true
				next = append(next, s)
			}
		}
		var chunks []int
		if dev != nil && dev[pos] != nil {
			chunks = dev[pos].chunks
			var trimmed []c45Stream
			for _, s := range cur {
				t := dev[pos].keep
				if t >= len(s.seq) {
					trimmed = append(trimmed, s)
					continue
				}
				if !s.unordered {
					trimmed = append(trimmed, c45Stream{seq: append([]int(nil), s.seq[:t]...), errs: s.errs})
					continue
				}
				c45SubMultisets(s.seq, t, func(sub []int) {
					trimmed = append(trimmed, c45Stream{seq: sub, unordered: true, errs: s.errs})
				})
			}
			cur = trimmed
		}
		for _, s := range cur {
			if s.unordered && c45OrderSensitive(k) {
				panic("c45Model: order-sensitive stage on a multiset stream")
			}
			o := c45ApplyOrdered(k, pos, s, chunks)
			if k != c45PM || o.unordered {
				add(o)
				continue
			}
			if !laterSensitive {
				o.unordered = true
				sort.Ints(o.seq)
				add(o)
				continue
			}
			if len(o.seq) > c45MaxPermLen {
				return nil, false
			}
			c45Permutations(o.seq, func(p []int) { add(c45Stream{seq: p, errs: o.errs}) })
			if len(next) > c45MaxStreams {
				return nil, false
			}
		}
		cur = next
	}
	return cur, true
}

// c45Compositions returns every way to write t as an ordered sum of positive parts.
func c45Compositions(t int) [][]int {
	if t == 0 {
		return nil
	}
	var out [][]int
	var cur []int
	var rec func(rest int)
	rec = func(rest int) {
		if rest == 0 {
			out = append(out, append([]int(nil), cur...))
			return
		}
		for c := 1; c <= rest; c++ {
			cur = append(cur, c)
			rec(rest - c)
			cur = cur[:len(cur)-1]
		}
	}
	rec(t)
	return out
}

// c45DefaultChunks: is the composition the list-semantics one (2,2,..,rest)?
func c45DefaultChunks(ch []int) bool {
	for i, c := range ch {
		if c != 2 && !(c == 1 && i == len(ch)-1) {
			return false
		}
	}
	return true
}

// c45Canonical is the model with ParallelMap treated as ordered (used to describe a failure); lens[i]
// is the length of the input of stage i.
func c45Canonical(prog []c45Kind, input []int) (c45Stream, []int) {
	s := c45Stream{seq: append([]int(nil), input...)}
	lens := make([]int, len(prog))
	for pos, k := range prog {
		lens[pos] = len(s.seq)
		s = c45ApplyOrdered(k, pos, s, nil)
	}
	return s, lens
}

// ---------------------------------------------------------------------------------------------
// running one case on the implementation

type c45Obs struct {
	done     bool
	items    []int
	err      error
	errPos   int // -1 nil error, -2 foreign error, else position of the c45StageErr
	runError error
}

func (o c45Obs) String() string {
	t := "complete"
	switch {
	case !o.done:
		t = "NOT-DONE"
	case o.errPos >= 0:
		t = fmt.Sprintf("error@%d", o.errPos)
	case o.errPos == -2:
		t = fmt.Sprintf("foreign-error(%v)", o.err)
	}
	return c45Str(o.items) + " " + t
}

var c45FusionName = map[FusionMode]string{FuseStateless: "FuseStateless", FuseNone: "FuseNone", FuseAggressive: "FuseAggressive"}

func c45RunCase(prog []c45Kind, mode FusionMode, input []int) c45Obs {
	sys := c45NewSystem()
	defer c45StopSystem(sys)
	src := Of(input...)
	for pos, k := range prog {
		src = c45Attach(src, k, pos)
	}
	col, sink := Collect[int]()
	g := src.To(sink)
	c45UnboundedMailboxes(g.stages)
	h, err := g.WithFusion(mode).Run(context.Background(), sys)
	if err != nil {
		return c45Obs{runError: err, errPos: -2}
	}
	o := c45Obs{errPos: -1}
	o.done = c45Quiesce(h)
	o.items = c45Items(col)
	if o.done {
		o.err = h.Err()
		if o.err != nil {
			var se *c45StageErr
			if errors.As(o.err, &se) {
				o.errPos = se.pos
			} else {
				o.errPos = -2
			}
		}
	}
	return o
}

func c45ErrsStr(errs uint64) string {
	if errs == 0 {
		return "complete"
	}
	var ps []string
	for p := 0; p < 64; p++ {
		if errs&(1<<uint(p)) != 0 {
			ps = append(ps, fmt.Sprintf("#%d", p))
		}
	}
	return "error of stage " + strings.Join(ps, " or ")
}

// c45Conforms: does the observation agree with one of the possible streams?
func c45Conforms(set []c45Stream, o c45Obs) bool {
	if o.runError != nil || !o.done || o.errPos == -2 {
		return false
	}
	for _, s := range set {
		if o.errPos < 0 {
			if s.errs != 0 {
				continue
			}
			if (!s.unordered && c45Equal(o.items, s.seq)) || (s.unordered && c45Equal(c45Sorted(o.items), s.seq)) {
				return true
			}
			continue
		}
		if s.errs&(1<<uint(o.errPos)) == 0 {
			continue
		}
		if (!s.unordered && c45IsPrefix(o.items, s.seq)) || (s.unordered && c45SubMultiset(o.items, s.seq)) {
			return true
		}
	}
	return false
}

// c45Judge compares an observation with the model; "" = conforms. The signature names the kind of
// disagreement only (structural).
func c45Judge(prog []c45Kind, input []int, set []c45Stream, o c45Obs) (sig, detail string) {
	if c45Conforms(set, o) {
		return "", ""
	}
	if o.runError != nil {
		return "materialisation-failed", fmt.Sprintf("Run returned %v", o.runError)
	}
	canon, _ := c45Canonical(prog, input)
	lens := make([]int, len(prog)) // longest possible input of every stage (bounds of the diagnosis)
	c45ModelLens(prog, input, nil, lens)
	what := fmt.Sprintf("list semantics: %s then %s (%d possible streams)", c45Str(canon.seq), c45ErrsStr(canon.errs), len(set))
	got := fmt.Sprintf("collected %s then %s", c45Str(o.items), c45ObsTerminal(o))
	if !o.done {
		return "no-completion-at-quiescence", fmt.Sprintf("stream not done at quiescence (virtual time advanced by > 1 min); %s; %s", got, what)
	}
	// Diagnosis (does not change the verdict): is the observation exactly what list semantics gives
	// when the Batch stage(s) of the pipeline lose the tail of their input and/or cut their batches
	// differently? Deviations are tried from none upwards; the first explanation names the signature.
	var batchPos []int
	for pos, k := range prog {
		if c45IsBatch(k) && lens[pos] > 0 {
			batchPos = append(batchPos, pos)
		}
	}
	if len(batchPos) > 0 {
		dev := make([]*c45BatchDev, len(prog))
		// phase 0: only tail loss; phase 1: additionally other batch sizes (Batch2.MapSum)
		phase := 0
		var rec func(i int, deviates bool) bool
		rec = func(i int, deviates bool) bool {
			if i == len(batchPos) {
				if !deviates {
					return false
				}
				set2, ok := c45Model(prog, input, dev)
				return ok && c45Conforms(set2, o)
			}
			p := batchPos[i]
			for t := lens[p]; t >= 0; t-- {
				chunkings := [][]int{nil}
				if phase == 1 && prog[p] == c45BatchSum {
					chunkings = append(chunkings, c45Compositions(t)...)
				}
				for ci, ch := range chunkings {
					if ci > 0 && c45DefaultChunks(ch) {
						continue
					}
					dev[p] = &c45BatchDev{keep: t, chunks: ch}
					if rec(i+1, deviates || t < lens[p] || ch != nil) {
						return true
					}
				}
			}
			dev[p] = nil
			return false
		}
		explained := rec(0, false)
		if !explained {
			phase = 1
			explained = rec(0, false)
		}
		if explained {
			var ks []string
			lost, oversize, other := false, false, false
			for _, p := range batchPos {
				d := dev[p]
				if d.keep < lens[p] {
					lost = true
					ks = append(ks, fmt.Sprintf("stage #%d (%s) delivered only %d of its %d input elements", p, c45KindName[prog[p]], d.keep, lens[p]))
				}
				if d.chunks != nil {
					big := false
					for _, c := range d.chunks {
						if c > 2 {
							big = true
						}
					}
					if big {
						oversize = true
					} else {
						other = true
					}
					ks = append(ks, fmt.Sprintf("stage #%d (%s) cut its input into batches of sizes %v", p, c45KindName[prog[p]], d.chunks))
				}
			}
			sig := "batch-stage-emits-underfull-batch"
			switch {
			case lost && oversize:
				sig = "batch-stage-loses-tail-and-emits-batch-larger-than-n"
			case lost && other:
				sig = "batch-stage-loses-tail-and-emits-underfull-batch"
			case lost:
				sig = "batch-stage-loses-tail-of-its-input"
			case oversize:
				sig = "batch-stage-emits-batch-larger-than-n"
			}
			return sig, fmt.Sprintf("%s; %s; the observation is exactly list semantics with: %s", got, what, strings.Join(ks, ", "))
		}
	}
	// terminal
	anyErr, anyOK, errMatch := false, false, false
	for _, s := range set {
		if s.errs == 0 {
			anyOK = true
		} else {
			anyErr = true
			if o.errPos >= 0 && s.errs&(1<<uint(o.errPos)) != 0 {
				errMatch = true
			}
		}
	}
	switch {
	case o.errPos == -2:
		return "foreign-stream-error", fmt.Sprintf("stream ended with %v; %s", o.err, what)
	case o.errPos == -1 && !anyOK:
		return "stage-error-not-reported", got + "; " + what
	case o.errPos >= 0 && !anyErr:
		return "unexpected-stage-error", got + "; " + what
	case o.errPos >= 0 && !errMatch:
		return "wrong-stage-error", got + "; " + what
	case o.errPos >= 0:
		return "elements-before-error-not-a-prefix", got + "; " + what
	}
	switch {
	case c45Equal(c45Sorted(o.items), c45Sorted(canon.seq)):
		return "order-differs", got + "; " + what
	case c45SubMultiset(o.items, canon.seq):
		return "elements-missing", got + "; " + what
	case c45SubMultiset(canon.seq, o.items):
		return "extra-elements", got + "; " + what
	default:
		return "wrong-elements", got + "; " + what
	}
}

func c45ObsTerminal(o c45Obs) string {
	switch {
	case !o.done:
		return "NOT DONE"
	case o.errPos >= 0:
		return fmt.Sprintf("error of stage #%d", o.errPos)
	case o.errPos == -2:
		return fmt.Sprintf("foreign error %v", o.err)
	}
	return "complete"
}

func c45ProgStr(prog []c45Kind) string {
	if len(prog) == 0 {
		return "(no stage)"
	}
	n := make([]string, len(prog))
	for i, k := range prog {
		n[i] = c45KindName[k]
	}
	return strings.Join(n, " > ")
}

// c45Programs enumerates all compositions of length 0..depth in a fixed order (shorter first).
func c45Programs(depth int, f func(prog []c45Kind)) {
	for d := 0; d <= depth; d++ {
		prog := make([]c45Kind, d)
		var rec func(i int)
		rec = func(i int) {
			if i == d {
				f(prog)
				return
			}
			for k := c45Kind(0); k < c45NKinds; k++ {
				prog[i] = k
				rec(i + 1)
			}
		}
		rec(0)
	}
}

// c45Failure is the best witness found so far for one signature (most reproducible, then shortest).
type c45Failure struct {
	caseStr, detail string
	repro, size     int
}

type c45Failures map[string]*c45Failure

func (f c45Failures) add(sig, caseStr, detail string, repro, size int) {
	b := f[sig]
	if b == nil || repro > b.repro || (repro == b.repro && size < b.size) {
		f[sig] = &c45Failure{caseStr: caseStr, detail: detail, repro: repro, size: size}
	}
}

// confirmed: does the failure mode sig (with or without the "rerun-" prefix) already have a witness that
// reproduced? A once-in-three failure of an already confirmed mode is one more instance of that mode
// (the known Batch defect is schedule dependent in some pipelines); only unconfirmed modes count as
// nondeterminism.
func (f c45Failures) confirmed(sig string) bool {
	base := strings.TrimPrefix(sig, "rerun-")
	for _, s := range []string{base, "rerun-" + base} {
		if b := f[s]; b != nil && b.repro >= 2 {
			return true
		}
	}
	return false
}

func (f c45Failures) report(e *vsched.Enum) {
	var sigs []string
	for s := range f {
		sigs = append(sigs, s)
	}
	sort.Strings(sigs)
	for _, s := range sigs {
		b := f[s]
		e.Fail(s, b.caseStr, "%s [observed in %d of 3 executions of this case]", b.detail, b.repro)
	}
}

func TestVerifC45(t *testing.T) {
	defer vsched.Finish(t)
	vsched.Rep() // must be initialised OUTSIDE the bubble (it reads the real clock)
	var cur *vsched.Enum
	bud := c45StartBudget(func(reason string) {
		if cur != nil && cur.St.Capped == "" {
			cur.St.Capped = reason
		}
	})
	defer bud.done()
	// one bubble for the whole process (see zz_c45_common_test.go)
	// The engine's per-bubble wall limit assumes one execution per bubble; here the bubble lives as long
	// as the process, and c45Budget's own watchdog bounds the real time of every single case.
	vsched.HangAfter = 1000 * time.Hour
	p := vsched.Bubble(t, func() {
		c45ScenarioSignals(bud, &cur)
		c45ScenarioWiring(bud, &cur)
		c45ScenarioRemat(bud, &cur)
		c45ScenarioLinear(bud, &cur)
	})
	if p != nil {
		panic(p)
	}
}

func c45ScenarioLinear(bud *c45Budget, cur **vsched.Enum) {
	r := vsched.Rep()
	depth := vsched.Pick(3, 4)
	inputs := [][]int{{}, {1}, {1, 1, 2}, {3, 1, 2, 2, 5}}
	if r.Thorough() {
		inputs = append(inputs, []int{2, 2}, []int{4, 9, 9, 6, 2, 7})
	}
	modes := []FusionMode{FuseStateless, FuseNone}
	modeNames := []string{"FuseStateless", "FuseNone"}
	if r.Thorough() {
		modes = append(modes, FuseAggressive)
		modeNames = append(modeNames, "FuseAggressive")
	}
	scenario := "linear-pipelines"
	e := vsched.NewEnum(scenario, map[string]any{
		"stages": c45KindName[:], "max_depth": depth, "inputs": fmt.Sprint(inputs),
		"fusion_modes": modeNames,
		"functions":    "Map 2x+1; TryMap x+3 (!j fails at its j-th input); Filter odd; FlatMap x%3 -> [],[x],[x x+10]; Scan running sum; OrderedParallelMap2 3x; ParallelMap2 x+7 (both sleep (x%5) ms of virtual time); Batch(2, 2ms); Buffer(2)/Buffer(1) no-drop",
	})
	r.Assumption("one goroutine schedule per execution (Go runtime scheduler inside a synctest bubble, virtual time); the oracle only uses schedule-independent facts at quiescence")
	r.Assumption("unordered ParallelMap is modelled as 'any permutation of its results' (over-approximates the 2-element in-flight window)")
	r.Assumption("every stage actor gets goakt's UnboundedMailbox instead of the default BoundedMailbox (see c45UnboundedMailboxes)")
	*cur = e
	replay := c45Replay()
	var maxSet, failing, flaky int64
	fails := c45Failures{}
	{
		c45Programs(depth, func(prog []c45Kind) {
			for _, mode := range modes {
				for _, in := range inputs {
					caseStr := fmt.Sprintf("Of%s > %s | %s", c45Str(in), c45ProgStr(prog), c45FusionName[mode])
					if replay != nil {
						if replay.skip(scenario, caseStr) {
							continue
						}
					} else if !e.Mine() {
						continue
					}
					if bud.expired.Load() {
						if e.St.Capped == "" {
							e.St.Capped = fmt.Sprintf("wall budget reached after %d cases", e.St.Executions)
						}
						continue
					}
					bud.begin(caseStr)
					set, ok := c45Model(prog, in, nil)
					if !ok {
						// permutation expansion too large: no verdict for this case (engine cap)
						e.St.Invalid++
						e.St.InvalidReasons["possible-stream set too large (ParallelMap before an order-sensitive stage)"]++
						if e.St.Invalid <= 3 {
							r.Note("linear-pipelines: no verdict (possible-stream set too large): %s", caseStr)
						}
						continue
					}
					if int64(len(set)) > maxSet {
						maxSet = int64(len(set))
					}
					o := c45RunCase(prog, mode, in)
					sig, detail := c45Judge(prog, in, set, o)
					if replay != nil {
						fmt.Printf("REPLAY %s\n  observed: %s\n  verdict: %s %s\n", caseStr, o.String(), map[bool]string{true: "conforms", false: "VIOLATION " + sig}[sig == ""], detail)
					}
					if sig != "" {
						// Every observed failure is a verdict (facts at quiescence on the real code); two
						// more fresh executions tell how schedule dependent it is.
						failing++
						same := 1
						if b := fails[sig]; b == nil || b.repro < 3 || len(prog)*100+len(in) < b.size {
							// (re-execution is skipped once the signature has a smaller 3/3 witness)
							for i := 0; i < 2; i++ {
								o2 := c45RunCase(prog, mode, in)
								if s2, _ := c45Judge(prog, in, set, o2); s2 == sig {
									same++
								}
							}
							if same < 3 {
								flaky++
							}
							if same >= 2 {
								fails.add(sig, caseStr, detail, same, len(prog)*100+len(in))
							} else if !fails.confirmed(sig) {
								// seen once in three executions of the same case: depends on the goroutine
								// schedule, which this engine does not control -> engine policy: not reported
								// (the start-up race behind such failures is enumerated deterministically by
								// scenario wiring-preemption)
								e.St.Nondeterminism++
								r.Note("linear-pipelines: %s failed once in 3 executions (%s: %s); schedule dependent, not reported", caseStr, sig, detail)
							}
						}
					}
					e.Case(caseStr, o.String(), 1, len(prog) > 0 && len(in) > 0)
				}
			}
		})
		fails.report(e)
	}
	r.Note("linear-pipelines: largest possible-stream set of a case: %d; failing cases in this shard: %d (re-executed ones that did not fail 3/3: %d)", maxSet, failing, flaky)
	e.Done()
}

// ---------------------------------------------------------------------------------------------
// Scenario "wiring-preemption": RunnableGraph.Run wires the stages one after the other (stageWire
// messages, source first, sink last). The goroutine calling Run may be preempted between two of these
// sends for arbitrarily long. This scenario enumerates that choice: for every pipeline and every stage
// index k the stageWire of stage k (and therefore of all later stages) is held back until everything
// that can happen without it has happened (quiescence), then wiring continues. The hold-back is
// implemented with the public mailbox extension point: stage k gets a Mailbox whose Enqueue waits for
// quiescence when it is handed the stageWire message (Enqueue runs on the goroutine that calls Run).
// Oracle: exactly the one of linear-pipelines (list semantics, completion, stage error).

type c45WireDelayMailbox struct {
	actor.Mailbox
	armed *bool
}

func (m *c45WireDelayMailbox) Enqueue(rc *actor.ReceiveContext) error {
	if *m.armed {
		if _, ok := rc.Message().(*stageWire); ok {
			*m.armed = false
			vsched.Settle()
		}
	}
	return m.Mailbox.Enqueue(rc)
}

func c45RunCaseDelayed(prog []c45Kind, mode FusionMode, input []int, k int) (o c45Obs, nstages int, delayed bool) {
	sys := c45NewSystem()
	defer c45StopSystem(sys)
	src := Of(input...)
	for pos, kd := range prog {
		src = c45Attach(src, kd, pos)
	}
	col, sink := Collect[int]()
	g := src.To(sink)
	c45UnboundedMailboxes(g.stages)
	nstages = len(g.stages)
	armed := true
	if k < nstages {
		g.stages[k].config.Mailbox = &c45WireDelayMailbox{Mailbox: actor.NewUnboundedMailbox(), armed: &armed}
	}
	h, err := g.WithFusion(mode).Run(context.Background(), sys)
	delayed = !armed
	if err != nil {
		return c45Obs{runError: err, errPos: -2}, nstages, delayed
	}
	o = c45Obs{errPos: -1}
	o.done = c45Quiesce(h)
	o.items = c45Items(col)
	if o.done {
		o.err = h.Err()
		if o.err != nil {
			var se *c45StageErr
			if errors.As(o.err, &se) {
				o.errPos = se.pos
			} else {
				o.errPos = -2
			}
		}
	}
	return o, nstages, delayed
}

// c45HasEagerStage: does the pipeline contain a stage that asks its upstream for elements as soon as
// it is wired (a fused run of >=2 fusable stages, ParallelMap, OrderedParallelMap)?
func c45HasEagerStage(prog []c45Kind, mode FusionMode) bool {
	fusable := func(k c45Kind) bool {
		return k == c45Map || k == c45TryOK || k == c45TryE0 || k == c45TryE2 || k == c45Filter
	}
	for i, k := range prog {
		if k == c45OPM || k == c45PM {
			return true
		}
		if mode != FuseNone && i+1 < len(prog) {
			a := fusable(k) || k == c45BatchSum // Batch2.MapSum ends with a Map
			if a && fusable(prog[i+1]) {
				return true
			}
		}
	}
	return false
}

func c45ScenarioWiring(bud *c45Budget, cur **vsched.Enum) {
	r := vsched.Rep()
	depth := vsched.Pick(2, 3)
	inputs := [][]int{{}, {1}, {1, 1, 2}, {3, 1, 2, 2, 5}}
	modes := []FusionMode{FuseStateless, FuseNone}
	scenario := "wiring-preemption"
	e := vsched.NewEnum(scenario, map[string]any{"stages": c45KindName[:], "max_depth": depth, "inputs": fmt.Sprint(inputs),
		"fusion_modes": []string{"FuseStateless", "FuseNone"}, "choice": "index k>=1 of the stage whose stageWire (and all later ones) is held back until quiescence"})
	*cur = e
	replay := c45Replay()
	fails := c45Failures{}
	var failing int64
	c45Programs(depth, func(prog []c45Kind) {
		for _, mode := range modes {
			for _, in := range inputs {
				set, ok := c45Model(prog, in, nil)
				nActors := 2 // source + sink
				for _, kd := range prog {
					switch kd {
					case c45BatchBufFlatten:
						nActors += 3
					case c45BatchFlatten, c45BatchSum:
						nActors += 2
					default:
						nActors++
					}
				}
				for k := 1; k < nActors; k++ {
					caseStr := fmt.Sprintf("Of%s > %s | %s | stageWire of stage #%d held back", c45Str(in), c45ProgStr(prog), c45FusionName[mode], k)
					if replay != nil {
						if replay.skip(scenario, caseStr) {
							continue
						}
					} else if !e.Mine() {
						continue
					}
					if bud.expired.Load() {
						if e.St.Capped == "" {
							e.St.Capped = fmt.Sprintf("wall budget reached after %d cases", e.St.Executions)
						}
						continue
					}
					if !ok {
						e.St.Invalid++
						e.St.InvalidReasons["possible-stream set too large"]++
						continue
					}
					bud.begin(caseStr)
					o, nst, delayed := c45RunCaseDelayed(prog, mode, in, k)
					if nst != nActors {
						panic(fmt.Sprintf("c45ScenarioWiring: %d stage actors expected, pipeline has %d", nActors, nst))
					}
					sig, detail := c45Judge(prog, in, set, o)
					if replay != nil {
						fmt.Printf("REPLAY %s\n  observed: %s (held back: %v)\n  verdict: %s %s\n", caseStr, o.String(), delayed, map[bool]string{true: "conforms", false: "VIOLATION " + sig}[sig == ""], detail)
					}
					if sig != "" {
						failing++
						same := 1
						if b := fails[sig]; b == nil || b.repro < 3 || len(prog)*100+len(in) < b.size {
							for i := 0; i < 2; i++ {
								o2, _, _ := c45RunCaseDelayed(prog, mode, in, k)
								if s2, _ := c45Judge(prog, in, set, o2); s2 == sig {
									same++
								}
							}
							if same >= 2 {
								fails.add(sig, caseStr, detail, same, len(prog)*100+len(in))
							} else if !fails.confirmed(sig) {
								e.St.Nondeterminism++
								r.Note("wiring-preemption: %s failed once in 3 executions (%s); not reported", caseStr, sig)
							}
						}
					}
					e.Case(caseStr, o.String(), 1, delayed && len(in) > 0 && c45HasEagerStage(prog, mode))
				}
			}
		}
	})
	fails.report(e)
	r.Note("wiring-preemption: failing cases in this shard: %d", failing)
	e.Done()
}

// ---------------------------------------------------------------------------------------------
// Scenario "re-materialisation": Source, Flow, Sink and RunnableGraph are lazy descriptions ("the same
// graph may be Run() multiple times to produce independent stream instances"), so list semantics
// must hold for EVERY materialisation of a description, not only the first. For every pipeline the
// description is built once and then
//   run 1, run 2: the very same RunnableGraph value is Run twice, one after the other (same Source,
//                 Flow and Sink values; the shared Collect sink receives run 1's elements followed
//                 by run 2's, the second segment is judged on its own);
//   run 3 || 4  : two more graphs built from the SAME Source value (same stage descriptors, fresh
//                 Collect sinks) are Run at the same time on one actor system (skipped for pipelines
//                 with a failing TryMap, whose harness-side element counter cannot serve two runs
//                 at once).
// Every run is compared with list semantics independently (same oracle as linear-pipelines). The
// inputs include lists whose first element equals their last one, so state that survives in the
// description (Deduplicate's last element, Scan's accumulator, Batch's window, ...) changes what
// the next run sees. Signatures of a failure in a later run, after run 1 conformed, are prefixed
// with "rerun-".

type c45RematObs struct {
	runs [4]c45Obs
	n    int
}

func c45ObsOf(h StreamHandle, items []int, done bool) c45Obs {
	o := c45Obs{errPos: -1, done: done, items: items}
	if done {
		o.err = h.Err()
		if o.err != nil {
			var se *c45StageErr
			if errors.As(o.err, &se) {
				o.errPos = se.pos
			} else {
				o.errPos = -2
			}
		}
	}
	return o
}

func c45RunRemat(prog []c45Kind, mode FusionMode, input []int, concurrent bool) (out c45RematObs) {
	sys := c45NewSystem()
	defer c45StopSystem(sys)
	var resets []func()
	src := Of(input...)
	for pos, k := range prog {
		src = c45AttachR(src, k, pos, &resets)
	}
	col, sink := Collect[int]()
	g := src.To(sink).WithFusion(mode)
	ctx := context.Background()
	seen := 0
	for run := 0; run < 2; run++ {
		for _, f := range resets {
			f()
		}
		c45UnboundedMailboxes(g.stages) // fresh mailbox instances: a mailbox belongs to one actor
		h, err := g.Run(ctx, sys)
		if err != nil {
			out.runs[run] = c45Obs{runError: err, errPos: -2}
			out.n = run + 1
			return out
		}
		done := c45Quiesce(h)
		all := c45Items(col)
		out.runs[run] = c45ObsOf(h, append([]int(nil), all[seen:]...), done)
		seen = len(all)
		out.n = run + 1
		if !done {
			return out // the sink of this run may still be alive: later segments would be ambiguous
		}
	}
	if !concurrent {
		return out
	}
	var hs [2]StreamHandle
	var cols [2]*Collector[int]
	for i := 0; i < 2; i++ {
		c, sk := Collect[int]()
		gi := src.To(sk).WithFusion(mode)
		c45UnboundedMailboxes(gi.stages)
		h, err := gi.Run(ctx, sys)
		if err != nil {
			out.runs[2+i] = c45Obs{runError: err, errPos: -2}
			out.n = 3 + i
			return out
		}
		hs[i], cols[i] = h, c
	}
	c45Quiesce(hs[0], hs[1])
	for i := 0; i < 2; i++ {
		done := false
		select {
		case <-hs[i].Done():
			done = true
		default:
		}
		out.runs[2+i] = c45ObsOf(hs[i], c45Items(cols[i]), done)
	}
	out.n = 4
	return out
}

// c45JudgeRemat judges every run on its own; the first failing run names the signature.
func c45JudgeRemat(prog []c45Kind, input []int, set []c45Stream, ob c45RematObs) (sig, detail string) {
	names := [4]string{"run 1", "run 2 (same RunnableGraph value run again)", "run 3 (same Source value, concurrent with run 4)", "run 4 (same Source value, concurrent with run 3)"}
	for i := 0; i < ob.n; i++ {
		s, d := c45Judge(prog, input, set, ob.runs[i])
		if s == "" {
			continue
		}
		if i > 0 {
			s = "rerun-" + s
		}
		return s, names[i] + ": " + d
	}
	return "", ""
}

func c45ScenarioRemat(bud *c45Budget, cur **vsched.Enum) {
	r := vsched.Rep()
	depth := vsched.Pick(2, 3)
	inputs := [][]int{{}, {1}, {1, 2, 2, 3, 1}, {3, 1, 2, 2, 5}}
	if r.Thorough() {
		inputs = append(inputs, []int{2, 2})
	}
	modes := []FusionMode{FuseStateless, FuseNone}
	scenario := "re-materialisation"
	e := vsched.NewEnum(scenario, map[string]any{"stages": c45KindName[:], "max_depth": depth, "inputs": fmt.Sprint(inputs),
		"fusion_modes": []string{"FuseStateless", "FuseNone"}, "runs": "1,2: same RunnableGraph value sequentially; 3||4: same Source value concurrently"})
	*cur = e
	replay := c45Replay()
	fails := c45Failures{}
	var failing int64
	obsStr := func(ob c45RematObs) string {
		var p []string
		for i := 0; i < ob.n; i++ {
			p = append(p, ob.runs[i].String())
		}
		return strings.Join(p, " | ")
	}
	c45Programs(depth, func(prog []c45Kind) {
		concurrent := true
		for _, k := range prog {
			if k == c45TryE0 || k == c45TryE2 {
				concurrent = false
			}
		}
		for _, mode := range modes {
			for _, in := range inputs {
				caseStr := fmt.Sprintf("Of%s > %s | %s | materialised repeatedly", c45Str(in), c45ProgStr(prog), c45FusionName[mode])
				if replay != nil {
					if replay.skip(scenario, caseStr) {
						continue
					}
				} else if !e.Mine() {
					continue
				}
				if bud.expired.Load() {
					if e.St.Capped == "" {
						e.St.Capped = fmt.Sprintf("wall budget reached after %d cases", e.St.Executions)
					}
					continue
				}
				set, ok := c45Model(prog, in, nil)
				if !ok {
					e.St.Invalid++
					e.St.InvalidReasons["possible-stream set too large"]++
					continue
				}
				bud.begin(caseStr)
				ob := c45RunRemat(prog, mode, in, concurrent)
				sig, detail := c45JudgeRemat(prog, in, set, ob)
				if replay != nil {
					fmt.Printf("REPLAY %s\n  observed: %s\n  verdict: %s %s\n", caseStr, obsStr(ob), map[bool]string{true: "conforms", false: "VIOLATION " + sig}[sig == ""], detail)
				}
				if sig != "" {
					failing++
					same := 1
					if b := fails[sig]; b == nil || b.repro < 3 || len(prog)*100+len(in) < b.size {
						for i := 0; i < 2; i++ {
							if s2, _ := c45JudgeRemat(prog, in, set, c45RunRemat(prog, mode, in, concurrent)); s2 == sig {
								same++
							}
						}
						if same >= 2 {
							fails.add(sig, caseStr, detail, same, len(prog)*100+len(in))
						} else if !fails.confirmed(sig) {
							e.St.Nondeterminism++
							r.Note("re-materialisation: %s failed once in 3 executions (%s); schedule dependent, not reported", caseStr, sig)
						}
					}
				}
				e.Case(caseStr, obsStr(ob), ob.n, len(prog) > 0 && len(in) > 0)
			}
		}
	})
	fails.report(e)
	r.Note("re-materialisation: failing cases in this shard: %d", failing)
	e.Done()
}

// ---------------------------------------------------------------------------------------------
// Scenario "terminal-signals": "the stream completes exactly once" observed at the place where the
// statement puts it, the sink: the pipeline's last stage must deliver exactly one terminal signal
// (streamComplete xor streamError) to the sink stage and no element after it. The real sink hides a
// repeated signal (it shuts down on the first one), so this scenario terminates the pipeline with a
// recording sink stage that speaks the same stage protocol (stageWire -> streamRequest(InitialDemand),
// then elements and terminal signals) but stays alive, and counts what arrives until quiescence.

type c45ProbeSink struct {
	elems         []int
	completes     int
	errs          int
	afterTerminal int
}

func (a *c45ProbeSink) PreStart(*actor.Context) error { return nil }
func (a *c45ProbeSink) PostStop(*actor.Context) error { return nil }
func (a *c45ProbeSink) Receive(rctx *actor.ReceiveContext) {
	switch msg := rctx.Message().(type) {
	case *stageWire:
		rctx.Tell(msg.upstream, &streamRequest{subID: msg.subID, n: defaultInitialDemand})
	case *streamElement:
		if a.completes+a.errs > 0 {
			a.afterTerminal++
		}
		if v, ok := msg.value.(int); ok {
			a.elems = append(a.elems, v)
		}
	case *streamComplete:
		a.completes++
	case *streamError:
		a.errs++
	default:
		rctx.Unhandled()
	}
}

func c45RunProbe(prog []c45Kind, mode FusionMode, input []int) *c45ProbeSink {
	sys := c45NewSystem()
	defer c45StopSystem(sys)
	src := Of(input...)
	for pos, k := range prog {
		src = c45Attach(src, k, pos)
	}
	probe := &c45ProbeSink{}
	sink := Sink[int]{desc: &stage{id: newStageID(), kind: sinkKind, config: defaultStageConfig(),
		actorFn: func(StageConfig) actor.Actor { return probe }}}
	g := src.To(sink)
	c45UnboundedMailboxes(g.stages)
	if _, err := g.WithFusion(mode).Run(context.Background(), sys); err != nil {
		panic(err)
	}
	// the probe never stops, so the handle never reports Done: quiescence + virtual time only
	vsched.Settle()
	for _, d := range []time.Duration{5 * time.Millisecond, 50 * time.Millisecond, time.Second} {
		time.Sleep(d)
		vsched.Settle()
	}
	return probe
}

func c45JudgeProbe(pr *c45ProbeSink) (sig, detail string) {
	got := fmt.Sprintf("the sink stage received %d element(s), %d streamComplete and %d streamError signal(s), %d element(s) after the first terminal signal", len(pr.elems), pr.completes, pr.errs, pr.afterTerminal)
	switch {
	case pr.completes+pr.errs == 0:
		return "no-terminal-signal-at-quiescence", got
	case pr.completes > 0 && pr.errs > 0:
		return "both-completion-and-error-signalled", got
	case pr.completes > 1:
		return "completion-signalled-more-than-once", got
	case pr.errs > 1:
		return "error-signalled-more-than-once", got
	case pr.afterTerminal > 0:
		return "element-after-terminal-signal", got
	}
	return "", ""
}

func c45ScenarioSignals(bud *c45Budget, cur **vsched.Enum) {
	r := vsched.Rep()
	depth := vsched.Pick(2, 3)
	inputs := [][]int{{}, {1}, {1, 1, 2}, {3, 1, 2, 2, 5}}
	modes := []FusionMode{FuseStateless, FuseNone}
	scenario := "terminal-signals"
	e := vsched.NewEnum(scenario, map[string]any{"stages": c45KindName[:], "max_depth": depth, "inputs": fmt.Sprint(inputs), "fusion_modes": []string{"FuseStateless", "FuseNone"}})
	*cur = e
	replay := c45Replay()
	fails := c45Failures{}
	var failing int64
	{
		c45Programs(depth, func(prog []c45Kind) {
			for _, mode := range modes {
				for _, in := range inputs {
					caseStr := fmt.Sprintf("Of%s > %s > recording sink | %s", c45Str(in), c45ProgStr(prog), c45FusionName[mode])
					if replay != nil {
						if replay.skip(scenario, caseStr) {
							continue
						}
					} else if !e.Mine() {
						continue
					}
					if bud.expired.Load() {
						if e.St.Capped == "" {
							e.St.Capped = fmt.Sprintf("wall budget reached after %d cases", e.St.Executions)
						}
						continue
					}
					bud.begin(caseStr)
					pr := c45RunProbe(prog, mode, in)
					sig, detail := c45JudgeProbe(pr)
					if replay != nil {
						fmt.Printf("REPLAY %s\n  verdict: %s %s\n", caseStr, map[bool]string{true: "conforms", false: "VIOLATION " + sig}[sig == ""], detail)
					}
					if sig != "" {
						failing++
						same := 1
						if b := fails[sig]; b == nil || b.repro < 3 || len(prog)*100+len(in) < b.size {
							for i := 0; i < 2; i++ {
								if s2, _ := c45JudgeProbe(c45RunProbe(prog, mode, in)); s2 == sig {
									same++
								}
							}
							if same >= 2 {
								fails.add(sig, caseStr, detail, same, len(prog)*100+len(in))
							} else if !fails.confirmed(sig) {
								e.St.Nondeterminism++
								r.Note("terminal-signals: %s failed once in 3 executions (%s); schedule dependent, not reported", caseStr, sig)
							}
						}
					}
					e.Case(caseStr, fmt.Sprintf("%s complete=%d error=%d late=%d", c45Str(pr.elems), pr.completes, pr.errs, pr.afterTerminal), 1, len(prog) > 0)
				}
			}
		})
		fails.report(e)
	}
	r.Note("terminal-signals: failing cases in this shard: %d", failing)
	e.Done()
}
