//go:build verif

package actor

// C32 - the relocation plan places every actor and grain of a departed node exactly once.
//
// The plan is computed by pure functions (allocateActors, relocatableGrains, allocateGrains,
// buildRelocateBatchRequests, reassignByRole/leastLoadedEligibleSurvivor) that are composed by
// relocationWorker.relocate / relocateShare and followed by the per-item dispatch (enqueueRelocation ->
// recreateActorFromWire / recreateSingletonFromWire / recreateGrainFromWire / releaseGrainForLazyRelocation)
// which is where non-relocatable and system entries are dropped.  "Assigned to target t" therefore means:
// the plan hands the entry to t AND t's dispatch acts on it.
//
// Scenarios
//   dispatch       (prerequisite, measured once) for every entry class the REAL enqueueRelocation runs on a
//                  real node with the fake registry: is the entry acted upon (actor running afterwards /
//                  grain's registry entry looked up) or skipped?
//   plan-actors    every survivor set (leader + 0..3 peers, role sets over {r1,r2}, base loads in {0,1,2})
//                  x every multiset of departed actors (size 0..3, thorough 0..4) over 8 entry kinds: REAL
//                  allocateActors, composed as relocate composes it, filtered by the measured dispatch.
//   plan-grains    1..4 targets x every multiset of grains (size 0..6, thorough 0..9) over 4 kinds: REAL
//                  relocatableGrains + allocateGrains.
//   redistribute   every unsent share (ordered actor lists of length 0..4 over 6 kinds, 0..2 grains) x
//                  0..2 remaining survivors with role sets x leader roles: REAL buildRelocateBatchRequests
//                  + reassignByRole.
//   batching       chunk edges: REAL buildRelocateBatchRequests + relocationWorker.sendBatches for item
//                  counts around the batch size and every position of a failing batch.
//   relocate       end to end on small bounds: REAL relocator/relocationWorker/relocateBatchHandler on a
//                  bubble cluster (see zz_c33_env_test.go); the observed placement is checked with the same
//                  clause oracle.
//
// The oracle is the statement, clause by clause (c32CheckActors / c32CheckGrains); the only computation it
// shares with the implementation is "role r is in the role list of target t".

import (
	"context"
	"fmt"
	"os"
	"sort"
	"strconv"
	"strings"
	"testing"
	"time"

	"golang.org/x/sync/errgroup"
	"google.golang.org/protobuf/types/known/durationpb"

	"github.com/tochemey/goakt/v4/internal/address"
	"github.com/tochemey/goakt/v4/internal/cluster"
	"github.com/tochemey/goakt/v4/internal/internalpb"
	"github.com/tochemey/goakt/v4/internal/remoteclient"
	"github.com/tochemey/goakt/v4/internal/types"
	"github.com/tochemey/goakt/v4/internal/verif/vsched"
	"github.com/tochemey/goakt/v4/log"
)

// ---------------------------------------------------------------------------------------------
// entry kinds
// ---------------------------------------------------------------------------------------------

type c32Class int

const (
	c32Plain     c32Class = iota // relocatable, ordinary name, not a singleton
	c32Singleton                 // cluster singleton (always relocatable, ordinary name)
	c32NonReloc                  // relocatable flag off
	c32SystemEnt                 // reserved (system) name
)

var c32ClassNames = [...]string{"plain", "singleton", "nonrelocatable", "system"}

type c32Kind struct {
	code  string
	class c32Class
	role  string
}

var c32ActorKinds = []c32Kind{
	{"P-", c32Plain, ""}, {"P1", c32Plain, "r1"}, {"P2", c32Plain, "r2"}, {"P3", c32Plain, "r3"},
	{"S-", c32Singleton, ""}, {"S3", c32Singleton, "r3"},
	{"N-", c32NonReloc, ""}, {"Y-", c32SystemEnt, ""},
}

const c32Departed = "127.0.0.1:9099" // remoting endpoint of the departed node

// c32WireActor builds the registry/wire record of an actor of the departed node.
func c32WireActor(k c32Kind, slot int) *internalpb.Actor {
	name := fmt.Sprintf("act%d", slot)
	if k.class == c32SystemEnt {
		name = fmt.Sprintf("GoAktVerif%d", slot)
	}
	a := &internalpb.Actor{
		Address:     address.New(name, c33System, c33Host, 9099).String(),
		Type:        types.Name(new(c33Actor)),
		Relocatable: k.class != c32NonReloc,
	}
	if k.role != "" {
		role := k.role
		a.Role = &role
	}
	if k.class == c32Singleton {
		a.Singleton = &internalpb.SingletonSpec{SpawnTimeout: durationpb.New(0), WaitInterval: durationpb.New(0), MaxRetries: 0}
	}
	return a
}

type c32GrainKind struct {
	code     string
	eager    bool
	disabled bool
	system   bool
}

var c32GrainKinds = []c32GrainKind{{"gl", false, false, false}, {"ge", true, false, false}, {"gd", false, true, false}, {"gy", false, false, true}}

func c32WireGrain(k c32GrainKind, slot int) *internalpb.Grain {
	name := fmt.Sprintf("gr%d", slot)
	if k.system {
		name = fmt.Sprintf("GoAktVerifGrain%d", slot)
	}
	return &internalpb.Grain{
		GrainId:           &internalpb.GrainId{Kind: "actor.c32Grain", Name: name, Value: "actor.c32Grain/" + name},
		Host:              c33Host,
		Port:              9099,
		DisableRelocation: k.disabled,
		EagerRelocation:   k.eager,
	}
}

// ---------------------------------------------------------------------------------------------
// measured dispatch
// ---------------------------------------------------------------------------------------------

type c32Dispatch struct {
	actor [4]bool            // by c32Class: does the REAL dispatch act on (recreate) the entry?
	grain map[string]bool    // by grain kind code: does the REAL dispatch look the grain up?
	note  string
}

func c32MeasureDispatch(t *testing.T) c32Dispatch {
	d := c32Dispatch{grain: map[string]bool{}}
	p := vfBubble(t, func() {
		ctx := context.Background()
		w := c33NewWorld([][]string{nil})
		n := w.nodes[0]
		var notes []string
		for ci, k := range []c32Kind{{"P-", c32Plain, ""}, {"S-", c32Singleton, ""}, {"N-", c32NonReloc, ""}, {"Y-", c32SystemEnt, ""}} {
			a := c32WireActor(k, 90+ci)
			name, _ := c33ActorName(a)
			_ = n.cl.PutActor(ctx, a) // stale record of the departed node
			var failed []string
			eg := new(errgroup.Group)
			enqueueRelocation(ctx, eg, n.sys, log.DiscardLogger, c32Departed, []*internalpb.Actor{a}, nil, func(id string, _ bool, err error) { failed = append(failed, id+": "+err.Error()) })
			_ = eg.Wait()
			vfSettle()
			d.actor[k.class] = len(w.runningOn(name)) == 1
			notes = append(notes, fmt.Sprintf("%s:%v%v", c32ClassNames[k.class], d.actor[k.class], failed))
		}
		for gi, gk := range c32GrainKinds {
			g := c32WireGrain(gk, 90+gi)
			_ = n.cl.PutGrain(ctx, g)
			eg := new(errgroup.Group)
			enqueueRelocation(ctx, eg, n.sys, log.DiscardLogger, c32Departed, nil, []*internalpb.Grain{g}, func(string, bool, error) {})
			_ = eg.Wait()
			vfSettle()
			d.grain[gk.code] = len(w.getGrainBy[g.GetGrainId().GetValue()]) > 0
			notes = append(notes, fmt.Sprintf("%s:%v", gk.code, d.grain[gk.code]))
		}
		d.note = strings.Join(notes, " ")
		w.stopAll()
	})
	if p != nil {
		t.Fatalf("c32 dispatch measurement panicked: %v", p)
	}
	return d
}

// ---------------------------------------------------------------------------------------------
// the oracle: the statement's clauses
// ---------------------------------------------------------------------------------------------

type c32Target struct {
	roles []string
	base  int
}

type c32Entry struct {
	name string
	kind c32Kind
}

// c32Placement is what a plan did with the actors: per target the ordered list of entries it acts on,
// and the entries reported as unplaceable.
type c32Placement struct {
	perTarget   [][]string
	unplaceable []string
}

func c32HasRole(roles []string, role string) bool {
	for _, r := range roles {
		if r == role {
			return true
		}
	}
	return false
}

// c32CheckActors returns (signature, detail) of the first violated clause, or "".
// leastLoaded: evaluate the least-loaded clause (only meaningful when every assigned entry counts as load).
func c32CheckActors(targets []c32Target, entries []c32Entry, pl c32Placement, leastLoaded, ordered bool) (string, string) {
	where := map[string][]int{}
	for t, list := range pl.perTarget {
		for _, n := range list {
			where[n] = append(where[n], t)
		}
	}
	unpl := map[string]int{}
	for _, n := range pl.unplaceable {
		unpl[n]++
	}
	known := map[string]bool{}
	for _, e := range entries {
		known[e.name] = true
		at := where[e.name]
		switch e.kind.class {
		case c32NonReloc:
			if len(at) != 0 {
				return "nonrelocatable-entry-assigned", fmt.Sprintf("%s(%s) assigned to %v", e.name, e.kind.code, at)
			}
		case c32SystemEnt:
			if len(at) != 0 {
				return "system-entry-assigned", fmt.Sprintf("%s(%s) assigned to %v", e.name, e.kind.code, at)
			}
		case c32Singleton:
			if len(at) == 0 {
				return "singleton-dropped", fmt.Sprintf("%s(%s) assigned nowhere", e.name, e.kind.code)
			}
			if len(at) > 1 {
				return "singleton-assigned-twice", fmt.Sprintf("%s(%s) assigned to %v", e.name, e.kind.code, at)
			}
			if at[0] != 0 {
				return "singleton-not-on-leader", fmt.Sprintf("%s(%s) assigned to target %d", e.name, e.kind.code, at[0])
			}
			if unpl[e.name] != 0 {
				return "singleton-reported-unplaceable", e.name
			}
		case c32Plain:
			eligible := 0
			for _, tg := range targets {
				if e.kind.role == "" || c32HasRole(tg.roles, e.kind.role) {
					eligible++
				}
			}
			if eligible == 0 {
				if len(at) != 0 {
					return "unplaceable-actor-assigned", fmt.Sprintf("%s(%s) assigned to %v although no survivor advertises %q", e.name, e.kind.code, at, e.kind.role)
				}
				if unpl[e.name] == 0 {
					return "unplaceable-actor-not-reported", fmt.Sprintf("%s(%s): no survivor advertises %q but it is not reported", e.name, e.kind.code, e.kind.role)
				}
				if unpl[e.name] > 1 {
					return "unplaceable-actor-reported-twice", e.name
				}
				continue
			}
			if unpl[e.name] != 0 {
				return "placeable-actor-reported-unplaceable", fmt.Sprintf("%s(%s): %d survivors advertise %q", e.name, e.kind.code, eligible, e.kind.role)
			}
			if len(at) == 0 {
				return "actor-dropped", fmt.Sprintf("%s(%s) assigned nowhere and not reported", e.name, e.kind.code)
			}
			if len(at) > 1 {
				return "actor-assigned-twice", fmt.Sprintf("%s(%s) assigned to %v", e.name, e.kind.code, at)
			}
			if e.kind.role != "" && !c32HasRole(targets[at[0]].roles, e.kind.role) {
				return "actor-on-target-without-role", fmt.Sprintf("%s(%s) assigned to target %d roles=%v", e.name, e.kind.code, at[0], targets[at[0]].roles)
			}
		}
	}
	for n := range where {
		if !known[n] {
			return "unknown-entry-assigned", n
		}
	}
	for n := range unpl {
		if !known[n] {
			return "unknown-entry-reported", n
		}
	}
	if !leastLoaded {
		return "", ""
	}
	// Least-loaded clause.  The departed node's actors form a set (a map in the snapshot), the plan hands
	// them out one after the other in an order the statement does not fix.  The clause holds iff there is an
	// order of the non-singleton assignments, consistent with the order in which each target received its
	// own entries, such that every role-less actor went to a target whose load (current load + entries
	// handed to it so far) was minimal at that moment.
	kindOf := map[string]c32Kind{}
	for _, e := range entries {
		kindOf[e.name] = e.kind
	}
	lists := make([][]string, len(targets))
	for t, list := range pl.perTarget {
		for _, n := range list {
			if kindOf[n].class == c32Plain {
				lists[t] = append(lists[t], n)
			}
		}
	}
	loads := make([]int, len(targets))
	for t, tg := range targets {
		loads[t] = tg.base
	}
	taken := make([][]bool, len(targets))
	for t := range lists {
		taken[t] = make([]bool, len(lists[t]))
	}
	if !c32OrderExists(lists, taken, loads, kindOf, ordered) {
		return "roleless-actor-not-on-least-loaded-target", fmt.Sprintf("no hand-out order explains placement %v with base loads %v", pl.perTarget, c32Bases(targets))
	}
	return "", ""
}

func c32Bases(targets []c32Target) []int {
	out := make([]int, len(targets))
	for i, t := range targets {
		out[i] = t.base
	}
	return out
}

// c32OrderExists: lists[t] = the plain actors target t received; ordered = each target's list is in the
// order of reception (otherwise any order within a target is admitted).
func c32OrderExists(lists [][]string, taken [][]bool, loads []int, kindOf map[string]c32Kind, ordered bool) bool {
	done := true
	for t := range lists {
		for i := range lists[t] {
			if !taken[t][i] {
				done = false
			}
		}
	}
	if done {
		return true
	}
	minLoad := loads[0]
	for _, l := range loads {
		if l < minLoad {
			minLoad = l
		}
	}
	for t := range lists {
		for i := range lists[t] {
			if taken[t][i] {
				continue
			}
			n := lists[t][i]
			if kindOf[n].role != "" || loads[t] == minLoad {
				taken[t][i] = true
				loads[t]++
				ok := c32OrderExists(lists, taken, loads, kindOf, ordered)
				taken[t][i] = false
				loads[t]--
				if ok {
					return true
				}
			}
			if ordered {
				break // only the first not yet received entry of a target may be next
			}
		}
	}
	return false
}

// c32CheckGrains: every relocatable grain handled by exactly one target, the others by none.
func c32CheckGrains(nTargets int, kinds map[string]c32GrainKind, perTarget [][]string) (string, string) {
	where := map[string][]int{}
	for t, list := range perTarget {
		if t >= nTargets && len(list) > 0 {
			return "grain-share-without-target", fmt.Sprintf("share %d of %d targets holds %v", t, nTargets, list)
		}
		for _, id := range list {
			where[id] = append(where[id], t)
		}
	}
	for id := range where {
		if _, ok := kinds[id]; !ok {
			return "unknown-grain-assigned", id
		}
	}
	ids := make([]string, 0, len(kinds))
	for id := range kinds {
		ids = append(ids, id)
	}
	sort.Strings(ids)
	for _, id := range ids {
		k, at := kinds[id], where[id]
		switch {
		case k.disabled:
			if len(at) != 0 {
				return "nonrelocatable-grain-assigned", fmt.Sprintf("%s(%s) assigned to %v", id, k.code, at)
			}
		case k.system:
			if len(at) != 0 {
				return "system-grain-assigned", fmt.Sprintf("%s(%s) assigned to %v", id, k.code, at)
			}
		default:
			if len(at) == 0 {
				return "grain-dropped", fmt.Sprintf("%s(%s) assigned nowhere", id, k.code)
			}
			if len(at) > 1 {
				return "grain-assigned-twice", fmt.Sprintf("%s(%s) assigned to %v", id, k.code, at)
			}
		}
	}
	return "", ""
}

// ---------------------------------------------------------------------------------------------
// helpers for the enumerations
// ---------------------------------------------------------------------------------------------

var c32RoleSets = [][]string{nil, {"r1"}, {"r2"}, {"r1", "r2"}}

func c32RoleStr(r []string) string { return "[" + strings.Join(r, ",") + "]" }

// c32Multisets calls f with every non-decreasing index sequence of length 0..maxLen over n symbols (the
// slice is only valid during the call).
func c32Multisets(n, maxLen int, f func(sel []int)) {
	buf := make([]int, maxLen)
	var rec func(depth, from int)
	rec = func(depth, from int) {
		f(buf[:depth])
		if depth == maxLen {
			return
		}
		for i := from; i < n; i++ {
			buf[depth] = i
			rec(depth+1, i)
		}
	}
	rec(0, 0)
}

// c32Sequences calls f with every sequence of length 0..maxLen over n symbols (the slice is only valid
// during the call).
func c32Sequences(n, maxLen int, f func(sel []int)) {
	buf := make([]int, maxLen)
	var rec func(depth int)
	rec = func(depth int) {
		f(buf[:depth])
		if depth == maxLen {
			return
		}
		for i := 0; i < n; i++ {
			buf[depth] = i
			rec(depth + 1)
		}
	}
	rec(0)
}

// c32NameCache: wire records are immutable once built; parsing the address once per record keeps the
// enumeration cheap (single-threaded use only).
var c32NameCache = map[*internalpb.Actor]string{}

func c32ActorNameOf(a *internalpb.Actor) string {
	if n, ok := c32NameCache[a]; ok {
		return n
	}
	n, err := c33ActorName(a)
	if err != nil {
		n = "?" + a.GetAddress()
	}
	c32NameCache[a] = n
	return n
}

func c32Names(as []*internalpb.Actor) []string {
	out := make([]string, 0, len(as))
	for _, a := range as {
		out = append(out, c32ActorNameOf(a))
	}
	return out
}

func c32GrainIDs(gs []*internalpb.Grain) []string {
	out := make([]string, 0, len(gs))
	for _, g := range gs {
		out = append(out, g.GetGrainId().GetValue())
	}
	return out
}

// c32Filter keeps the entries the measured dispatch acts upon.
func c32FilterActors(d c32Dispatch, names []string, kindOf map[string]c32Kind) []string {
	var out []string
	for _, n := range names {
		if k, ok := kindOf[n]; !ok || d.actor[k.class] {
			out = append(out, n)
		}
	}
	return out
}

func c32FilterGrains(d c32Dispatch, ids []string, kinds map[string]c32GrainKind) []string {
	var out []string
	for _, id := range ids {
		if k, ok := kinds[id]; !ok || d.grain[k.code] {
			out = append(out, id)
		}
	}
	return out
}


// ---------------------------------------------------------------------------------------------
// wall-budget shares: the scenarios run one after the other; each may use the budget up to its
// cumulative share (time left over by an early finisher is inherited by the next one), so that an
// overloaded machine cuts into every enumeration proportionally instead of starving the later ones.
// Hitting a share only lowers coverage (exhaustive:false for that scenario).
// ---------------------------------------------------------------------------------------------

var c32Start = time.Now()

type c32Budget struct {
	e        *vsched.Enum
	deadline time.Time
	n        int
}

func c32Share(e *vsched.Enum, cumulative float64) *c32Budget {
	secs, err := strconv.ParseFloat(os.Getenv("VERIF_BUDGET_S"), 64)
	if err != nil || secs <= 0 {
		secs = 3600
	}
	return &c32Budget{e: e, deadline: c32Start.Add(time.Duration(cumulative * secs * float64(time.Second)))}
}

// mine = e.Mine() plus the scenario's own share of the wall budget.
func (b *c32Budget) mine() bool {
	if !b.e.Mine() {
		return false
	}
	b.n++
	if b.n%64 == 1 && time.Now().After(b.deadline) && b.e.St.Capped == "" {
		b.e.St.Capped = fmt.Sprintf("scenario share of the wall budget reached after %d cases", b.e.St.Executions)
		return false
	}
	return true
}

// ---------------------------------------------------------------------------------------------
// plan-actors
// ---------------------------------------------------------------------------------------------

func c32PlanActors(d c32Dispatch) {
	maxPeers := 3
	maxActors := vsched.Pick(3, 4)
	e := vsched.NewEnum("plan-actors", map[string]any{
		"peers": "0..3", "role_sets": "subsets of {r1,r2} for the leader and every peer", "base_loads": "{0,1,2} per target",
		"actors": fmt.Sprintf("multisets of size 0..%d (quick tier: 0..2 for 3 peers) over %d kinds (role -/r1/r2/r3, singleton, non-relocatable, system)", maxActors, len(c32ActorKinds)),
		"dispatch": d.note,
	})
	defer e.Done()
	bud := c32Share(e, 1.0)
	// pre-built wire records: slot s holds kind k
	wire := make([][]*internalpb.Actor, 4)
	for s := range wire {
		for _, k := range c32ActorKinds {
			wire[s] = append(wire[s], c32WireActor(k, s))
		}
	}
	for n := 0; n <= maxPeers; n++ {
		nt := n + 1
		roleIdx := make([]int, nt)
		for {
			loads := make([]int, nt)
			for {
				targets := make([]c32Target, nt)
				var peers []*cluster.Peer
				var tdesc []string
				for t := 0; t < nt; t++ {
					targets[t] = c32Target{roles: c32RoleSets[roleIdx[t]], base: loads[t]}
					tdesc = append(tdesc, fmt.Sprintf("%s%d", c32RoleStr(targets[t].roles), loads[t]))
					if t > 0 {
						peers = append(peers, &cluster.Peer{Host: c33Host, PeersPort: 8000 + t, RemotingPort: 9000 + t, Roles: targets[t].roles})
					}
				}
				tstr := strings.Join(tdesc, " ")
				caseMax := maxActors
				if n == 3 && !vsched.Rep().Thorough() {
					caseMax = 2 // quick tier: the largest survivor set gets the smaller actor multisets
				}
				c32Multisets(len(c32ActorKinds), caseMax, func(sel []int) {
					if !bud.mine() {
						return
					}
					entries := make([]c32Entry, 0, len(sel))
					kindOf := map[string]c32Kind{}
					state := &internalpb.PeerState{Host: c33Host, PeersPort: 8099, RemotingPort: 9099, Actors: map[string]*internalpb.Actor{}}
					var codes []string
					pure := true
					for s, ki := range sel {
						a := wire[s][ki]
						name := c32ActorNameOf(a)
						entries = append(entries, c32Entry{name: name, kind: c32ActorKinds[ki]})
						kindOf[name] = c32ActorKinds[ki]
						state.Actors[a.GetAddress()] = a
						codes = append(codes, c32ActorKinds[ki].code)
						if cl := c32ActorKinds[ki].class; cl == c32NonReloc || cl == c32SystemEnt {
							pure = false
						}
					}
					input := "targets(leader first) " + tstr + " | actors " + strings.Join(codes, ",")
					// the map iteration order inside allocateActors is random: two calls sample two orders
					for rep := 0; rep < 2; rep++ {
						leaderShare, peerShares, unplaceable := allocateActors(targets[0].roles, peers, state, append([]int(nil), loads...))
						// composition as in relocationWorker.relocate: the leader recreates leaderShare, peer i
						// (target index i) is sent peerShares[i]
						pl := c32Placement{perTarget: make([][]string, nt), unplaceable: c32Names(unplaceable)}
						pl.perTarget[0] = c32FilterActors(d, c32Names(leaderShare), kindOf)
						for i := 1; i < len(peerShares); i++ {
							names := c32FilterActors(d, c32Names(peerShares[i]), kindOf)
							if i >= nt {
								if len(names) > 0 {
									e.Fail("actor-share-without-target", input, "share %d holds %v", i, names)
								}
								continue
							}
							pl.perTarget[i] = names
						}
						if sig, detail := c32CheckActors(targets, entries, pl, pure, true); sig != "" {
							e.Fail(sig, input, "%s; placement=%v unplaceable=%v", detail, pl.perTarget, pl.unplaceable)
						}
					}
					// observation: the order-independent facts that were compared
					var nAssign, nUnpl, nSingle, nSkip int
					for _, en := range entries {
						switch en.kind.class {
						case c32Singleton:
							nSingle++
						case c32NonReloc, c32SystemEnt:
							nSkip++
						default:
							el := false
							for _, tg := range targets {
								if en.kind.role == "" || c32HasRole(tg.roles, en.kind.role) {
									el = true
								}
							}
							if el {
								nAssign++
							} else {
								nUnpl++
							}
						}
					}
					obs := fmt.Sprintf("targets=%d placed=%d unplaceable=%d singletons=%d skipped=%d roles=%s", nt, nAssign, nUnpl, nSingle, nSkip, c32RoleKey(targets, entries))
					e.Case(input, obs, 2, len(sel) >= 2 && nt >= 2)
				})
				if !c32Inc(loads, 3) {
					break
				}
			}
			if !c32Inc(roleIdx, len(c32RoleSets)) {
				break
			}
		}
	}
}

// c32RoleKey: for every placed role-constrained actor the set of eligible targets (order-independent).
func c32RoleKey(targets []c32Target, entries []c32Entry) string {
	var parts []string
	for _, en := range entries {
		if en.kind.class != c32Plain || en.kind.role == "" {
			continue
		}
		var el []string
		for t, tg := range targets {
			if c32HasRole(tg.roles, en.kind.role) {
				el = append(el, fmt.Sprint(t))
			}
		}
		parts = append(parts, en.kind.role+"@{"+strings.Join(el, "")+"}")
	}
	sort.Strings(parts)
	return strings.Join(parts, ",")
}

// c32Inc increments a little-endian mixed-radix counter; false on wrap-around.
func c32Inc(v []int, radix int) bool {
	for i := range v {
		v[i]++
		if v[i] < radix {
			return true
		}
		v[i] = 0
	}
	return false
}

// ---------------------------------------------------------------------------------------------
// plan-grains
// ---------------------------------------------------------------------------------------------

func c32PlanGrains(d c32Dispatch) {
	maxGrains := vsched.Pick(6, 9)
	e := vsched.NewEnum("plan-grains", map[string]any{
		"targets": "1..4 (leader + 0..3 peers)",
		"grains":  fmt.Sprintf("multisets of size 0..%d over {lazy, eager, relocation-disabled, system-named}", maxGrains),
	})
	defer e.Done()
	bud := c32Share(e, 0.03)
	for nt := 1; nt <= 4; nt++ {
		c32Multisets(len(c32GrainKinds), maxGrains, func(sel []int) {
			if !bud.mine() {
				return
			}
			kinds := map[string]c32GrainKind{}
			in := map[string]*internalpb.Grain{}
			var codes []string
			relocatable := 0
			for s, ki := range sel {
				g := c32WireGrain(c32GrainKinds[ki], s)
				kinds[g.GetGrainId().GetValue()] = c32GrainKinds[ki]
				in[g.GetGrainId().GetValue()] = g
				codes = append(codes, c32GrainKinds[ki].code)
				if !c32GrainKinds[ki].disabled && !c32GrainKinds[ki].system {
					relocatable++
				}
			}
			input := fmt.Sprintf("targets=%d grains=%s", nt, strings.Join(codes, ","))
			grains := relocatableGrains(in)
			leaderShare, peerShares := allocateGrains(nt, grains)
			// composition as in relocationWorker.relocate: leader handles leaderShare, peer i gets peerShares[i]
			perTarget := make([][]string, nt)
			perTarget[0] = c32FilterGrains(d, c32GrainIDs(leaderShare), kinds)
			for i := 1; i < len(peerShares); i++ {
				ids := c32FilterGrains(d, c32GrainIDs(peerShares[i]), kinds)
				if i >= nt {
					perTarget = append(perTarget, ids)
					continue
				}
				perTarget[i] = ids
			}
			if sig, detail := c32CheckGrains(nt, kinds, perTarget); sig != "" {
				e.Fail(sig, input, "%s; shares=%v", detail, perTarget)
			}
			// observation: the raw share sizes (they depend on counts only; which grain sits in which share
			// depends on Go's map iteration order and is deliberately left out)
			sizes := []int{len(leaderShare)}
			for i := 1; i < len(peerShares); i++ {
				sizes = append(sizes, len(peerShares[i]))
			}
			handled := 0
			for _, l := range perTarget {
				handled += len(l)
			}
			e.Case(input, fmt.Sprintf("relocatable=%d handled=%d share-sizes=%v", relocatable, handled, sizes), 2, relocatable >= 2 && nt >= 2)
		})
	}
}

// ---------------------------------------------------------------------------------------------
// redistribute (reassignByRole)
// ---------------------------------------------------------------------------------------------

var c32RedistKinds = []c32Kind{
	{"P-", c32Plain, ""}, {"P1", c32Plain, "r1"}, {"P2", c32Plain, "r2"}, {"P3", c32Plain, "r3"},
	{"N-", c32NonReloc, ""}, {"Y-", c32SystemEnt, ""},
}

func c32Redistribute(d c32Dispatch) {
	maxActors := vsched.Pick(4, 5)
	e := vsched.NewEnum("redistribute", map[string]any{
		"survivors": "0..2 remaining peers with role sets over {r1,r2}; leader role sets over {r1,r2}",
		"unsent":    fmt.Sprintf("ordered actor lists of length 0..%d (one less for 2 survivors) over %d kinds, 0..2 lazy grains", maxActors, len(c32RedistKinds)),
	})
	defer e.Done()
	bud := c32Share(e, 0.35)
	for ns := 0; ns <= 2; ns++ {
		roleIdx := make([]int, ns+1) // [0] = leader
		for {
			targets := make([]c32Target, ns+1)
			var survivors []*cluster.Peer
			var tdesc []string
			for t := range targets {
				targets[t] = c32Target{roles: c32RoleSets[roleIdx[t]]}
				tdesc = append(tdesc, c32RoleStr(targets[t].roles))
				if t > 0 {
					survivors = append(survivors, &cluster.Peer{Host: c33Host, PeersPort: 8000 + t, RemotingPort: 9000 + t, Roles: targets[t].roles})
				}
			}
			for ng := 0; ng <= 2; ng++ {
				caseMax := maxActors
				if ns == 2 {
					caseMax = maxActors - 1 // the largest survivor set gets the shorter lists
				}
				c32Sequences(len(c32RedistKinds), caseMax, func(sel []int) {
					if !bud.mine() {
						return
					}
					var actors []*internalpb.Actor
					var entries []c32Entry
					kindOf := map[string]c32Kind{}
					var codes []string
					for s, ki := range sel {
						a := c32WireActor(c32RedistKinds[ki], s)
						actors = append(actors, a)
						name := c32ActorNameOf(a)
						entries = append(entries, c32Entry{name: name, kind: c32RedistKinds[ki]})
						kindOf[name] = c32RedistKinds[ki]
						codes = append(codes, c32RedistKinds[ki].code)
					}
					var grains []*internalpb.Grain
					gkinds := map[string]c32GrainKind{}
					for s := 0; s < ng; s++ {
						g := c32WireGrain(c32GrainKinds[0], s)
						grains = append(grains, g)
						gkinds[g.GetGrainId().GetValue()] = c32GrainKinds[0]
					}
					input := fmt.Sprintf("leader %s survivors %s | unsent actors %s grains %d", tdesc[0], strings.Join(tdesc[1:], " "), strings.Join(codes, ","), ng)
					requests := buildRelocateBatchRequests(c32Departed, actors, grains)
					failures := &relocationFailures{}
					shares, leaderActors, outGrains := reassignByRole(requests, survivors, targets[0].roles, failures)
					pl := c32Placement{perTarget: make([][]string, ns+1)}
					pl.perTarget[0] = c32FilterActors(d, c32Names(leaderActors), kindOf)
					for i, sh := range shares {
						names := c32FilterActors(d, c32Names(sh), kindOf)
						if i+1 > ns {
							if len(names) > 0 {
								e.Fail("actor-share-without-target", input, "share %d holds %v", i, names)
							}
							continue
						}
						pl.perTarget[i+1] = names
					}
					for _, f := range failures.items() {
						if f.GetGrain() {
							e.Fail("grain-reported-failed-by-reassignment", input, "%s", f.GetId())
							continue
						}
						if addr, err := address.Parse(f.GetId()); err == nil {
							pl.unplaceable = append(pl.unplaceable, addr.Name())
						} else {
							pl.unplaceable = append(pl.unplaceable, "?"+f.GetId())
						}
					}
					if sig, detail := c32CheckActors(targets, entries, pl, false, true); sig != "" {
						e.Fail(sig, input, "%s; placement=%v failed=%v", detail, pl.perTarget, pl.unplaceable)
					}
					// least-loaded for the redistributed share: the hand-out order is the list order; the
					// only load known to this step is what it has handed to each remaining peer so far.
					if ns > 0 {
						given := make([]int, ns+1)
						at := map[string]int{}
						for t, l := range pl.perTarget {
							for _, n := range l {
								at[n] = t
							}
						}
						allCount := true
						for _, en := range entries {
							if en.kind.class != c32Plain {
								allCount = false
							}
						}
						for _, en := range entries {
							t, ok := at[en.name]
							if !ok {
								continue
							}
							if allCount && en.kind.role == "" {
								if t == 0 {
									e.Fail("roleless-actor-not-on-least-loaded-target", input, "%s went to the leader although %d peers survive", en.name, ns)
								} else {
									for p := 1; p <= ns; p++ {
										if given[p] < given[t] {
											e.Fail("roleless-actor-not-on-least-loaded-target", input, "%s went to survivor %d (given %d) while survivor %d has %d", en.name, t, given[t], p, given[p])
											break
										}
									}
								}
							}
							given[t]++
						}
					}
					// grains: returned exactly once for the caller to place
					gper := [][]string{c32GrainIDs(outGrains)}
					if sig, detail := c32CheckGrains(1, gkinds, gper); sig != "" {
						e.Fail("redistributed-"+sig, input, "%s", detail)
					}
					e.Case(input, fmt.Sprintf("placement=%v failed=%d grains=%d", pl.perTarget, len(pl.unplaceable), len(outGrains)), 2, len(sel) >= 2 && ns >= 1)
				})
			}
			if !c32Inc(roleIdx, len(c32RoleSets)) {
				break
			}
		}
	}
}

// ---------------------------------------------------------------------------------------------
// batching: chunk edges and the unsent remainder
// ---------------------------------------------------------------------------------------------

// c32BatchRem is a transport stub for sendBatches: every attempt for the request at index failAt fails
// (peer unreachable from that batch on), everything else is acknowledged.
type c32BatchRem struct {
	remoteclient.Client
	requests []*internalpb.RelocateBatchRequest
	failAt   int
	got      []*internalpb.RelocateBatchRequest
	attempts int
}

func (r *c32BatchRem) RelocateBatch(_ context.Context, _ string, _ int, req *internalpb.RelocateBatchRequest) (*internalpb.RelocateBatchResponse, error) {
	r.attempts++
	if r.failAt >= 0 && r.failAt < len(r.requests) && req == r.requests[r.failAt] {
		return nil, errC33Transport
	}
	r.got = append(r.got, req)
	return &internalpb.RelocateBatchResponse{}, nil
}

func c32Batching(t *testing.T) {
	sizes := []int{0, 1, 2, defaultRelocationBatchSize - 1, defaultRelocationBatchSize, defaultRelocationBatchSize + 1,
		2*defaultRelocationBatchSize - 1, 2 * defaultRelocationBatchSize, 2*defaultRelocationBatchSize + 1}
	gsizes := []int{0, 1, defaultRelocationBatchSize, defaultRelocationBatchSize + 1}
	e := vsched.NewEnum("batching", map[string]any{
		"actors": fmt.Sprint(sizes), "grains(lazy/eager alternating)": fmt.Sprint(gsizes), "failing_batch": "none or every request index",
		"batch_size": defaultRelocationBatchSize,
	})
	defer e.Done()
	bud := c32Share(e, 0.08)
	maxA, maxG := sizes[len(sizes)-1], gsizes[len(gsizes)-1]
	actors := make([]*internalpb.Actor, maxA)
	for i := range actors {
		actors[i] = c32WireActor(c32ActorKinds[0], 1000+i)
	}
	grains := make([]*internalpb.Grain, maxG)
	for i := range grains {
		grains[i] = c32WireGrain(c32GrainKinds[i%2], 1000+i)
	}
	p := vfBubble(t, func() {
		ctx := context.Background()
		target := &cluster.Peer{Host: c33Host, PeersPort: 8001, RemotingPort: 9001}
		for _, na := range sizes {
			for _, ng := range gsizes {
				nreq := (na+defaultRelocationBatchSize-1)/defaultRelocationBatchSize + (ng+defaultRelocationBatchSize-1)/defaultRelocationBatchSize
				for failAt := -1; failAt < nreq; failAt++ {
					if !bud.mine() {
						continue
					}
					input := fmt.Sprintf("actors=%d grains=%d failing-request=%d", na, ng, failAt)
					requests := buildRelocateBatchRequests(c32Departed, actors[:na], grains[:ng])
					count := map[string]int{}
					for _, rq := range requests {
						if n := len(rq.GetActors()) + len(rq.GetGrains()); n > defaultRelocationBatchSize {
							e.Fail("batch-size-out-of-bounds", input, "a request carries %d items", n)
						}
						for _, a := range rq.GetActors() {
							count[a.GetAddress()]++
						}
						for _, g := range rq.GetGrains() {
							count[g.GetGrainId().GetValue()]++
						}
					}
					bad := c32CountMismatch(count, actors[:na], grains[:ng])
					if bad != "" {
						e.Fail("batching-loses-or-duplicates-item", input, "%s", bad)
					}
					rem := &c32BatchRem{requests: requests, failAt: failAt}
					w := &relocationWorker{remoting: rem, logger: log.DiscardLogger}
					failures := &relocationFailures{}
					remaining, err := w.sendBatches(ctx, target, requests, failures)
					if (err != nil) != (failAt >= 0) {
						e.Fail("sendbatches-error-mismatch", input, "err=%v", err)
					}
					// delivered + unsent = every item exactly once
					count = map[string]int{}
					for _, rq := range append(append([]*internalpb.RelocateBatchRequest(nil), rem.got...), remaining...) {
						for _, a := range rq.GetActors() {
							count[a.GetAddress()]++
						}
						for _, g := range rq.GetGrains() {
							count[g.GetGrainId().GetValue()]++
						}
					}
					if bad := c32CountMismatch(count, actors[:na], grains[:ng]); bad != "" {
						e.Fail("delivered-plus-unsent-not-exactly-once", input, "%s (delivered %d requests, unsent %d)", bad, len(rem.got), len(remaining))
					}
					// the unsent remainder reported as failed names exactly its actors and eager grains
					recordUnsent(remaining, errC33Transport, failures)
					listed := map[string]int{}
					for _, f := range failures.items() {
						listed[f.GetId()]++
					}
					wantListed := 0
					for _, rq := range remaining {
						for _, a := range rq.GetActors() {
							wantListed++
							if listed[a.GetAddress()] != 1 {
								e.Fail("unsent-actor-not-reported-once", input, "%s listed %d times", a.GetAddress(), listed[a.GetAddress()])
							}
						}
						for _, g := range rq.GetGrains() {
							if g.GetEagerRelocation() {
								wantListed++
								if listed[g.GetGrainId().GetValue()] != 1 {
									e.Fail("unsent-eager-grain-not-reported-once", input, "%s listed %d times", g.GetGrainId().GetValue(), listed[g.GetGrainId().GetValue()])
								}
							}
						}
					}
					if len(failures.items()) != wantListed {
						e.Fail("delivered-item-reported-failed", input, "%d failures for %d unsent reportable items", len(failures.items()), wantListed)
					}
					e.Case(input, fmt.Sprintf("requests=%d delivered=%d unsent=%d reported=%d", len(requests), len(rem.got), len(remaining), wantListed), 2, len(requests) >= 2)
				}
			}
		}
	})
	if p != nil {
		t.Fatalf("c32 batching panicked: %v", p)
	}
}

func c32CountMismatch(count map[string]int, actors []*internalpb.Actor, grains []*internalpb.Grain) string {
	want := len(actors) + len(grains)
	for _, a := range actors {
		if count[a.GetAddress()] != 1 {
			return fmt.Sprintf("actor %s occurs %d times", a.GetAddress(), count[a.GetAddress()])
		}
	}
	for _, g := range grains {
		if count[g.GetGrainId().GetValue()] != 1 {
			return fmt.Sprintf("grain %s occurs %d times", g.GetGrainId().GetValue(), count[g.GetGrainId().GetValue()])
		}
	}
	if len(count) != want {
		return fmt.Sprintf("%d distinct items for %d inputs", len(count), want)
	}
	return ""
}

// ---------------------------------------------------------------------------------------------
// relocate: end to end on a bubble cluster
// ---------------------------------------------------------------------------------------------

var c32E2EKinds = []c32Kind{
	{"P-", c32Plain, ""}, {"P1", c32Plain, "r1"}, {"P3", c32Plain, "r3"},
	{"S-", c32Singleton, ""}, {"N-", c32NonReloc, ""}, {"Y-", c32SystemEnt, ""},
}

var c32E2EGrainSets = [][]int{nil, {0, 2}, {0, 0, 3}, {0}, {0, 0, 0, 0, 2}} // indexes into c32GrainKinds (no eager: no grain kind is registered)

var c32E2ERoleSets = [][]string{nil, {"r1"}}

func c32Relocate(t *testing.T) {
	maxPeers := 2
	maxActors := vsched.Pick(2, 3)
	loadRadix := vsched.Pick(2, 3)
	gsets := vsched.Pick(2, len(c32E2EGrainSets))
	e := vsched.NewEnum("relocate", map[string]any{
		"peers": "0..2", "role_sets": "{} or {r1} for the leader and every peer", "base_loads": fmt.Sprintf("0..%d registry records per target (quick tier, 2 peers: last peer 0)", loadRadix-1),
		"actors": fmt.Sprintf("multisets of size 0..%d over %d kinds", maxActors, len(c32E2EKinds)), "grain_sets": gsets,
		"what": "real handleNodeLeftEvent -> relocator -> relocationWorker.relocate -> (fake transport) -> real relocateBatchHandler, stale registry records, snapshot in the leader's store",
	})
	defer e.Done()
	bud := c32Share(e, 0.80)
	for n := 0; n <= maxPeers; n++ {
		nt := n + 1
		roleIdx := make([]int, nt)
		for {
			loads := make([]int, nt)
			for {
				for gsi, gset := range c32E2EGrainSets[:gsets] {
					c32Multisets(len(c32E2EKinds), maxActors, func(sel []int) {
						if !bud.mine() {
							return
						}
						sel = append([]int(nil), sel...)
						c32RelocateCase(t, e, roleIdx, loads, gsi, gset, sel)
					})
				}
				if n == 2 && !vsched.Rep().Thorough() {
					// quick tier: the last peer's current load stays 0 for the largest survivor set
					if !c32Inc(loads[:2], loadRadix) {
						break
					}
					continue
				}
				if !c32Inc(loads, loadRadix) {
					break
				}
			}
			if !c32Inc(roleIdx, len(c32E2ERoleSets)) {
				break
			}
		}
	}
}

func c32RelocateCase(t *testing.T, e *vsched.Enum, roleIdx, loads []int, gsi int, gset, sel []int) {
	nt := len(roleIdx)
	targets := make([]c32Target, nt)
	roleSets := make([][]string, nt)
	var tdesc []string
	for i := range targets {
		targets[i] = c32Target{roles: c32E2ERoleSets[roleIdx[i]], base: loads[i]}
		roleSets[i] = targets[i].roles
		tdesc = append(tdesc, fmt.Sprintf("%s%d", c32RoleStr(targets[i].roles), loads[i]))
	}
	var entries []c32Entry
	kindOf := map[string]c32Kind{}
	var wire []*internalpb.Actor
	var codes []string
	pure := true
	for s, ki := range sel {
		k := c32E2EKinds[ki]
		a := c32WireActor(k, s)
		wire = append(wire, a)
		name := c32ActorNameOf(a)
		entries = append(entries, c32Entry{name: name, kind: k})
		kindOf[name] = k
		codes = append(codes, k.code)
		if k.class == c32NonReloc || k.class == c32SystemEnt {
			pure = false
		}
	}
	gkinds := map[string]c32GrainKind{}
	var gwire []*internalpb.Grain
	var gcodes []string
	for s, gi := range gset {
		g := c32WireGrain(c32GrainKinds[gi], s)
		gwire = append(gwire, g)
		gkinds[g.GetGrainId().GetValue()] = c32GrainKinds[gi]
		gcodes = append(gcodes, c32GrainKinds[gi].code)
	}
	input := fmt.Sprintf("targets(leader first) %s | actors %s | grains %s", strings.Join(tdesc, " "), strings.Join(codes, ","), strings.Join(gcodes, ","))

	var pl c32Placement
	var gper [][]string
	var failedEvents, incomplete int
	p := vfBubble(t, func() {
		ctx := context.Background()
		w := c33NewWorld(roleSets)
		leader := w.nodes[0]
		sub, err := leader.sys.Subscribe()
		if err != nil {
			panic(err)
		}
		// current loads: registry records of actors living on the targets
		for ti, nd := range w.nodes {
			for j := 0; j < loads[ti]; j++ {
				pad := &internalpb.Actor{Address: address.New(fmt.Sprintf("pad-%d-%d", ti, j), c33System, c33Host, nd.remotingPort).String(), Type: types.Name(new(c33Actor)), Relocatable: true}
				_ = nd.cl.PutActor(ctx, pad)
			}
		}
		state := &internalpb.PeerState{Host: c33Host, PeersPort: 8099, RemotingPort: 9099, Actors: map[string]*internalpb.Actor{}, Grains: map[string]*internalpb.Grain{}}
		for _, a := range wire {
			state.Actors[a.GetAddress()] = a
			_ = leader.cl.PutActor(ctx, a) // stale registry record pointing at the departed node
		}
		for _, g := range gwire {
			state.Grains[g.GetGrainId().GetValue()] = g
			_ = leader.cl.PutGrain(ctx, g)
		}
		for _, nd := range w.nodes {
			_ = nd.sys.clusterStore.PersistPeerState(ctx, state)
			nd.sys.peerRemotingPorts.Set("127.0.0.1:8099", 9099)
		}
		w.mu.Lock()
		w.getActorBy, w.getGrainBy = map[string][]int{}, map[string][]int{}
		w.mu.Unlock()
		ev := &cluster.Event{Type: cluster.NodeLeft, Payload: &cluster.NodeLeftEvent{Address: "127.0.0.1:8099", Timestamp: time.Now().UTC()}}
		for _, nd := range w.nodes {
			nd.sys.handleNodeLeftEvent(ev)
		}
		vfSettle()
		for i := 0; i < 200; i++ { // let retry/backoff timers (virtual) run out
			if _, inFlight := leader.sys.relocationJob("127.0.0.1:8099"); !inFlight {
				break
			}
			time.Sleep(time.Second)
			vfSettle()
		}
		if _, inFlight := leader.sys.relocationJob("127.0.0.1:8099"); inFlight {
			incomplete = 1
		}
		pl.perTarget = make([][]string, nt)
		for _, en := range entries {
			for _, ti := range w.runningOn(en.name) {
				pl.perTarget[ti] = append(pl.perTarget[ti], en.name)
			}
		}
		for m := range sub.Iterator() {
			if f, ok := m.Payload().(*RelocationFailed); ok {
				failedEvents++
				for _, id := range f.Actors() {
					if addr, err := address.Parse(id); err == nil {
						pl.unplaceable = append(pl.unplaceable, addr.Name())
					} else {
						pl.unplaceable = append(pl.unplaceable, "?"+id)
					}
				}
			}
		}
		sort.Strings(pl.unplaceable)
		gper = make([][]string, nt)
		w.mu.Lock()
		for id, by := range w.getGrainBy {
			for _, ti := range by {
				gper[ti] = append(gper[ti], id)
			}
		}
		w.mu.Unlock()
		for ti := range gper {
			sort.Strings(gper[ti])
		}
		w.stopAll()
	})
	if p != nil {
		e.Fail("relocation-panicked", input, "%v", p)
		e.Case(input, "panic", 1, true)
		return
	}
	if incomplete != 0 {
		e.Fail("relocation-job-never-released", input, "the relocation job is still registered after 200 virtual seconds")
	}
	if sig, detail := c32CheckActors(targets, entries, pl, pure, false); sig != "" {
		e.Fail(sig, input, "%s; running=%v failed-event-actors=%v", detail, pl.perTarget, pl.unplaceable)
	}
	if sig, detail := c32CheckGrains(nt, gkinds, gper); sig != "" {
		e.Fail(sig, input, "%s; handled-by=%v", detail, gper)
	}
	var nRun int
	for _, l := range pl.perTarget {
		nRun += len(l)
	}
	gHandled := 0 // which grain sits in which share depends on the map order: only the total is observed
	for _, l := range gper {
		gHandled += len(l)
	}
	obs := fmt.Sprintf("targets=%d running=%d reported=%v failed-events=%d grains-handled=%d roles=%s", nt, nRun, pl.unplaceable, failedEvents, gHandled, c32RoleKey(targets, entries))
	e.Case(input, obs, 1, len(sel) >= 2 && nt >= 2)
}

// ---------------------------------------------------------------------------------------------
// TestVerifC32
// ---------------------------------------------------------------------------------------------

func TestVerifC32(t *testing.T) {
	defer vsched.Finish(t)
	r := vsched.Rep()
	d := c32MeasureDispatch(t)
	r.Note("measured dispatch: %s", d.note)
	if !d.actor[c32Plain] || !d.actor[c32Singleton] {
		t.Fatalf("c32: the harness could not make the real dispatch recreate a plain/singleton actor: %s", d.note)
	}
	// cheap scenarios first: under an overloaded machine the wall budget then cuts into the largest
	// enumeration only
	c32PlanGrains(d)
	c32Batching(t)
	c32Redistribute(d)
	c32Relocate(t)
	c32PlanActors(d)
}
