//go:build verif

package actor

// Environment shared by the relocation checks C32 (end-to-end part), C33 and C35.
//
// A "world" is a small cluster inside ONE synctest bubble: every node is a REAL actorSystem (started
// through the public API in stand-alone mode and then switched to clustered mode in-package, because a
// real clustered start needs sockets, olric and memberlist).  What is faked:
//
//   * cluster.Cluster  -> c33Cluster: one view per node of a shared in-memory registry (actors, grains)
//     and of a static member list.  It implements the documented contract of the methods the relocation
//     code uses: Put/Get/Remove/Exists of actor and grain records (records are stored and returned as
//     copies, like the serialised olric records; Get of a missing key returns ErrActorNotFound /
//     ErrGrainNotFound; Remove of a missing key is a no-op), Actors/Grains/…ByHost/CountActorsByHost as
//     scans of the registry, Peers = members except the local node, Members with the coordinator flag on
//     the oldest member, IsLeader, NextRoundRobinValue, LastRebalanceEvent (never).  Unimplemented methods
//     panic (nil embedded interface), so a code path needing more is noticed.
//   * remoteclient.Client -> c33Remoting: only the TRANSPORT is faked.  RelocateBatch copies the request
//     (a wire round trip) and invokes the REAL relocateBatchHandler of the target node's actorSystem; the
//     reply is mapped to (response, error) exactly as remoteclient.client.RelocateBatch does
//     (*internalpb.Error -> error).  A per-call hook lets the explorer inject peer failures.
//     RemoteSpawn supports the one request the relocation path can issue (a singleton spawn forwarded to
//     the coordinator) and performs the singleton branch of the real remote-spawn handler on the target.
//     RemoteAsk / RemoteTell honour ctx and the timeout (see C35).
//   * cluster.Store -> the repository's own cluster.MemoryStore behind a wrapper (c33Store) that can
//     intercept DeletePeerState (an explorer event).

import (
	"context"
	"errors"
	"fmt"
	"net"
	"sort"
	"strconv"
	"sync"
	"time"

	"google.golang.org/protobuf/proto"

	"github.com/tochemey/goakt/v4/discovery"
	gerrors "github.com/tochemey/goakt/v4/errors"
	"github.com/tochemey/goakt/v4/internal/address"
	"github.com/tochemey/goakt/v4/internal/cluster"
	"github.com/tochemey/goakt/v4/internal/internalpb"
	"github.com/tochemey/goakt/v4/internal/remoteclient"
	"github.com/tochemey/goakt/v4/remote"
)

const (
	c33Host   = "127.0.0.1"
	c33System = "c33"
)

// c33Actor is the relocatable test actor (zero-value constructible: relocation instantiates it by
// reflection from the registered type).
type c33Actor struct{}

func (*c33Actor) PreStart(*Context) error { return nil }
func (*c33Actor) PostStop(*Context) error { return nil }
func (*c33Actor) Receive(ctx *ReceiveContext) {
	switch ctx.Message().(type) {
	case *c33Ping:
		ctx.Response(&c33Pong{})
	}
}

type c33Ping struct{}
type c33Pong struct{}

// c33Node is one member.
type c33Node struct {
	idx          int
	sys          *actorSystem
	peersPort    int
	remotingPort int
	roles        []string
	cl           *c33Cluster
	rem          *c33Remoting
	member       bool // currently in the member list
	stopped      bool
}

func (n *c33Node) peersAddr() string { return net.JoinHostPort(c33Host, strconv.Itoa(n.peersPort)) }
func (n *c33Node) hostPort() string  { return address.FormatHostPort(c33Host, n.remotingPort) }

// c33BatchCall is one intercepted RelocateBatch call (see c33Remoting).
type c33BatchCall struct {
	from, to *c33Node
	req      *internalpb.RelocateBatchRequest
	verdict  chan int // c33BatchOK ...
}

const (
	c33BatchOK   = iota // deliver to the target's real handler, return its reply
	c33BatchFail        // transport error before the target saw the request
	c33BatchLost        // target handled the request, the reply is lost (transport error)
)

type c33World struct {
	mu     sync.Mutex
	actors map[string]*internalpb.Actor
	grains map[string]*internalpb.Grain
	nodes  []*c33Node
	rr     int

	// observation log of registry reads done by the relocation dispatch, per node
	getActorBy map[string][]int // actor name -> node indexes that called GetActor
	getGrainBy map[string][]int // grain identity -> node indexes that called GetGrain

	// interception
	gateBatches bool // RelocateBatch calls wait for the explorer's verdict
	pending     []*c33BatchCall
	down        map[int]bool // node idx -> unreachable from now on (every call fails)
	gateScan    bool         // CountActorsByHost waits for release
	scanWait    []chan error
	batchLog    []string
	gateDelete  bool // DeletePeerState on a gated store waits for release (see c33Store)
	deleteWait  []chan struct{}
}

// c33Store wraps the repository's MemoryStore; DeletePeerState can be intercepted so that "the snapshot
// removal of a finishing relocation is still pending" is a state the explorer can act in.  Calls made by
// the harness goroutine itself (inside handleNodeLeftEvent) are never intercepted (bypass).
type c33Store struct {
	cluster.Store
	w      *c33World
	bypass bool
}

func (s *c33Store) DeletePeerState(ctx context.Context, peerAddress string) error {
	s.w.mu.Lock()
	if s.w.gateDelete && !s.bypass {
		ch := make(chan struct{})
		s.w.deleteWait = append(s.w.deleteWait, ch)
		s.w.mu.Unlock()
		<-ch
	} else {
		s.w.mu.Unlock()
	}
	return s.Store.DeletePeerState(ctx, peerAddress)
}

func (w *c33World) deletesWaiting() int {
	w.mu.Lock()
	defer w.mu.Unlock()
	return len(w.deleteWait)
}

// releaseDelete lets the oldest intercepted DeletePeerState proceed.
func (w *c33World) releaseDeletes() int {
	w.mu.Lock()
	chs := w.deleteWait
	w.deleteWait = nil
	w.mu.Unlock()
	for _, ch := range chs {
		close(ch)
	}
	return len(chs)
}

// handleNodeLeft runs the node's real handleNodeLeftEvent on the calling (harness) goroutine.
func (n *c33Node) handleNodeLeft(ev *cluster.Event) {
	st, _ := n.sys.clusterStore.(*c33Store)
	if st != nil {
		n.sys.cluster.(*c33Cluster).w.mu.Lock()
		st.bypass = true
		n.sys.cluster.(*c33Cluster).w.mu.Unlock()
	}
	n.sys.handleNodeLeftEvent(ev)
	if st != nil {
		n.sys.cluster.(*c33Cluster).w.mu.Lock()
		st.bypass = false
		n.sys.cluster.(*c33Cluster).w.mu.Unlock()
	}
}

// ---------------------------------------------------------------------------------------------
// fake cluster view
// ---------------------------------------------------------------------------------------------

type c33Cluster struct {
	cluster.Cluster // nil: unimplemented methods panic
	w               *c33World
	self            *c33Node
}

func (c *c33Cluster) Start(context.Context) error { return nil }
func (c *c33Cluster) Stop(context.Context) error  { return nil }
func (c *c33Cluster) IsRunning() bool             { return true }
func (c *c33Cluster) Events() <-chan *cluster.Event {
	return nil
}
func (c *c33Cluster) LastRebalanceEvent() time.Time { return time.Time{} }
func (c *c33Cluster) GetPartition(string) uint64    { return 0 }

func (c *c33Cluster) PutActor(_ context.Context, a *internalpb.Actor) error {
	name, err := c33ActorName(a)
	if err != nil {
		return err
	}
	c.w.mu.Lock()
	c.w.actors[name] = proto.Clone(a).(*internalpb.Actor)
	c.w.mu.Unlock()
	return nil
}

func (c *c33Cluster) PutActorIfAbsent(_ context.Context, a *internalpb.Actor) error {
	name, err := c33ActorName(a)
	if err != nil {
		return err
	}
	c.w.mu.Lock()
	defer c.w.mu.Unlock()
	if _, ok := c.w.actors[name]; ok {
		return cluster.ErrActorAlreadyExists
	}
	c.w.actors[name] = proto.Clone(a).(*internalpb.Actor)
	return nil
}

func (c *c33Cluster) GetActor(_ context.Context, name string) (*internalpb.Actor, error) {
	c.w.mu.Lock()
	defer c.w.mu.Unlock()
	c.w.getActorBy[name] = append(c.w.getActorBy[name], c.self.idx)
	a, ok := c.w.actors[name]
	if !ok {
		return nil, cluster.ErrActorNotFound
	}
	return proto.Clone(a).(*internalpb.Actor), nil
}

func (c *c33Cluster) RemoveActor(_ context.Context, name string) error {
	c.w.mu.Lock()
	delete(c.w.actors, name)
	c.w.mu.Unlock()
	return nil
}

func (c *c33Cluster) ActorExists(_ context.Context, name string) (bool, error) {
	c.w.mu.Lock()
	_, ok := c.w.actors[name]
	c.w.mu.Unlock()
	return ok, nil
}

func (c *c33Cluster) sortedActors() []*internalpb.Actor {
	c.w.mu.Lock()
	defer c.w.mu.Unlock()
	names := make([]string, 0, len(c.w.actors))
	for n := range c.w.actors {
		names = append(names, n)
	}
	sort.Strings(names)
	out := make([]*internalpb.Actor, 0, len(names))
	for _, n := range names {
		out = append(out, proto.Clone(c.w.actors[n]).(*internalpb.Actor))
	}
	return out
}

func (c *c33Cluster) Actors(context.Context, time.Duration) ([]*internalpb.Actor, error) {
	return c.sortedActors(), nil
}

func (c *c33Cluster) ActorsByHost(_ context.Context, host string, port int, _ time.Duration) ([]*internalpb.Actor, error) {
	want := address.FormatHostPort(host, port)
	var out []*internalpb.Actor
	for _, a := range c.sortedActors() {
		if hp, ok := address.HostPortOf(a.GetAddress()); ok && hp == want {
			out = append(out, a)
		}
	}
	return out, nil
}

func (c *c33Cluster) CountActorsByHost(ctx context.Context, _ time.Duration) (map[string]int, error) {
	c.w.mu.Lock()
	if c.w.gateScan {
		ch := make(chan error)
		c.w.scanWait = append(c.w.scanWait, ch)
		c.w.mu.Unlock()
		if err := <-ch; err != nil {
			return nil, err
		}
	} else {
		c.w.mu.Unlock()
	}
	counts := map[string]int{}
	for _, a := range c.sortedActors() {
		if hp, ok := address.HostPortOf(a.GetAddress()); ok {
			counts[hp]++
		}
	}
	return counts, nil
}

func (c *c33Cluster) PutGrain(_ context.Context, g *internalpb.Grain) error {
	c.w.mu.Lock()
	c.w.grains[g.GetGrainId().GetValue()] = proto.Clone(g).(*internalpb.Grain)
	c.w.mu.Unlock()
	return nil
}

func (c *c33Cluster) GetGrain(_ context.Context, id string) (*internalpb.Grain, error) {
	c.w.mu.Lock()
	defer c.w.mu.Unlock()
	c.w.getGrainBy[id] = append(c.w.getGrainBy[id], c.self.idx)
	g, ok := c.w.grains[id]
	if !ok {
		return nil, cluster.ErrGrainNotFound
	}
	return proto.Clone(g).(*internalpb.Grain), nil
}

func (c *c33Cluster) RemoveGrain(_ context.Context, id string) error {
	c.w.mu.Lock()
	delete(c.w.grains, id)
	c.w.mu.Unlock()
	return nil
}

func (c *c33Cluster) GrainExists(_ context.Context, id string) (bool, error) {
	c.w.mu.Lock()
	_, ok := c.w.grains[id]
	c.w.mu.Unlock()
	return ok, nil
}

func (c *c33Cluster) sortedGrains() []*internalpb.Grain {
	c.w.mu.Lock()
	defer c.w.mu.Unlock()
	ids := make([]string, 0, len(c.w.grains))
	for n := range c.w.grains {
		ids = append(ids, n)
	}
	sort.Strings(ids)
	out := make([]*internalpb.Grain, 0, len(ids))
	for _, n := range ids {
		out = append(out, proto.Clone(c.w.grains[n]).(*internalpb.Grain))
	}
	return out
}

func (c *c33Cluster) Grains(context.Context, time.Duration) ([]*internalpb.Grain, error) {
	return c.sortedGrains(), nil
}

func (c *c33Cluster) GrainsByHost(_ context.Context, host string, port int, _ time.Duration) ([]*internalpb.Grain, error) {
	var out []*internalpb.Grain
	for _, g := range c.sortedGrains() {
		if g.GetHost() == host && int(g.GetPort()) == port {
			out = append(out, g)
		}
	}
	return out, nil
}

func (c *c33Cluster) Members(context.Context) ([]*cluster.Peer, error) {
	c.w.mu.Lock()
	defer c.w.mu.Unlock()
	var out []*cluster.Peer
	first := true
	for _, n := range c.w.nodes {
		if !n.member {
			continue
		}
		out = append(out, &cluster.Peer{
			Host: c33Host, PeersPort: n.peersPort, RemotingPort: n.remotingPort, DiscoveryPort: n.peersPort + 1000,
			Roles: append([]string(nil), n.roles...), Coordinator: first, CreatedAt: int64(n.idx + 1),
		})
		first = false
	}
	return out, nil
}

func (c *c33Cluster) Peers(ctx context.Context) ([]*cluster.Peer, error) {
	members, _ := c.Members(ctx)
	var out []*cluster.Peer
	for _, m := range members {
		if m.PeersPort == c.self.peersPort {
			continue
		}
		out = append(out, m)
	}
	return out, nil
}

func (c *c33Cluster) IsLeader(ctx context.Context) bool {
	members, _ := c.Members(ctx)
	return len(members) > 0 && members[0].PeersPort == c.self.peersPort
}

func (c *c33Cluster) NextRoundRobinValue(context.Context, string) (int, error) {
	c.w.mu.Lock()
	defer c.w.mu.Unlock()
	c.w.rr++
	return c.w.rr, nil
}

func c33ActorName(a *internalpb.Actor) (string, error) {
	addr, err := address.Parse(a.GetAddress())
	if err != nil {
		return "", err
	}
	return addr.Name(), nil
}

// ---------------------------------------------------------------------------------------------
// fake transport
// ---------------------------------------------------------------------------------------------

var errC33Transport = errors.New("c33: connection refused (injected peer failure)")

type c33Remoting struct {
	remoteclient.Client // nil: unimplemented methods panic
	w                   *c33World
	self                *c33Node

	// C35: behaviour of RemoteAsk / RemoteTell, set by the harness
	askFn  func(ctx context.Context, to *address.Address, msg any, timeout time.Duration) (any, error)
	tellFn func(ctx context.Context, to *address.Address, msg any) error
}

func (r *c33Remoting) Close() {}

func (r *c33Remoting) nodeAt(port int) *c33Node {
	for _, n := range r.w.nodes {
		if n.remotingPort == port {
			return n
		}
	}
	return nil
}

// RelocateBatch: transport only; the target's REAL handler does the work.
func (r *c33Remoting) RelocateBatch(ctx context.Context, host string, port int, request *internalpb.RelocateBatchRequest) (*internalpb.RelocateBatchResponse, error) {
	target := r.nodeAt(port)
	if target == nil || host != c33Host {
		return nil, errC33Transport
	}
	verdict := c33BatchOK
	r.w.mu.Lock()
	switch {
	case r.w.down[target.idx]:
		verdict = c33BatchFail
		r.w.batchLog = append(r.w.batchLog, fmt.Sprintf("n%d:down", target.idx))
		r.w.mu.Unlock()
	case r.w.gateBatches:
		call := &c33BatchCall{from: r.self, to: target, req: request, verdict: make(chan int)}
		r.w.pending = append(r.w.pending, call)
		r.w.mu.Unlock()
		verdict = <-call.verdict
	default:
		r.w.mu.Unlock()
	}
	if verdict == c33BatchFail || target.stopped {
		return nil, errC33Transport
	}
	wire := proto.Clone(request).(*internalpb.RelocateBatchRequest)
	resp, err := target.sys.relocateBatchHandler(ctx, nil, wire)
	if verdict == c33BatchLost {
		return nil, errC33Transport
	}
	if err != nil {
		return nil, err
	}
	// as remoteclient.checkProtoError: an *internalpb.Error reply is an error
	if perr, ok := resp.(*internalpb.Error); ok {
		return nil, errors.New(perr.GetMessage())
	}
	out, ok := resp.(*internalpb.RelocateBatchResponse)
	if !ok {
		return nil, fmt.Errorf("unexpected response type %T", resp)
	}
	return proto.Clone(out).(*internalpb.RelocateBatchResponse), nil
}

// RemoteSpawn: only the request spawnSingletonOnLeader issues (a singleton spawn forwarded to the
// coordinator) is supported; the target does what the singleton branch of the real remote-spawn handler
// does: instantiate the registered kind and call SpawnSingleton with the carried spec.
func (r *c33Remoting) RemoteSpawn(ctx context.Context, host string, port int, req *remote.SpawnRequest) (*string, error) {
	target := r.nodeAt(port)
	if target == nil || host != c33Host || target.stopped || r.w.isDown(target.idx) {
		return nil, errC33Transport
	}
	if req.Singleton == nil {
		return nil, errors.New("c33: RemoteSpawn of a non-singleton is not supported by the transport stub")
	}
	actor, err := target.sys.reflection.instantiateActor(req.Kind)
	if err != nil {
		return nil, err
	}
	opts := []ClusterSingletonOption{
		WithSingletonSpawnTimeout(req.Singleton.SpawnTimeout),
		WithSingletonSpawnWaitInterval(req.Singleton.WaitInterval),
		WithSingletonSpawnRetries(int(req.Singleton.MaxRetries)),
	}
	if req.Supervisor != nil {
		opts = append(opts, WithSingletonSupervisor(req.Supervisor))
	}
	pid, err := target.sys.SpawnSingleton(ctx, req.Name, actor, opts...)
	if err != nil {
		return nil, err
	}
	id := pid.ID()
	return &id, nil
}

func (w *c33World) isDown(idx int) bool {
	w.mu.Lock()
	defer w.mu.Unlock()
	return w.down[idx]
}

func (r *c33Remoting) RemoteAsk(ctx context.Context, _, to *address.Address, message any, timeout time.Duration) (any, error) {
	if r.askFn == nil {
		return nil, gerrors.ErrRemoteSendFailure
	}
	return r.askFn(ctx, to, message, timeout)
}

func (r *c33Remoting) RemoteTell(ctx context.Context, _, to *address.Address, message any) error {
	if r.tellFn == nil {
		return gerrors.ErrRemoteSendFailure
	}
	return r.tellFn(ctx, to, message)
}

// ---------------------------------------------------------------------------------------------
// world construction (inside a bubble)
// ---------------------------------------------------------------------------------------------

// c33NewWorld starts one real actor system per role set; node 0 is the oldest member (coordinator).
func c33NewWorld(roleSets [][]string) *c33World {
	w := &c33World{
		actors: map[string]*internalpb.Actor{}, grains: map[string]*internalpb.Grain{},
		getActorBy: map[string][]int{}, getGrainBy: map[string][]int{}, down: map[int]bool{},
	}
	for i, roles := range roleSets {
		n := &c33Node{idx: i, peersPort: 8000 + i, remotingPort: 9000 + i, roles: roles, member: true}
		n.cl = &c33Cluster{w: w, self: n}
		n.rem = &c33Remoting{w: w, self: n}
		w.nodes = append(w.nodes, n)
	}
	ctx := context.Background()
	for _, n := range w.nodes {
		sys := vfNewSystem(c33System)
		n.sys = sys
		sys.locker.Lock()
		sys.remoteConfig = remote.NewConfig(c33Host, n.remotingPort)
		sys.remoteHostPort = net.JoinHostPort(c33Host, strconv.Itoa(n.remotingPort))
		sys.clusterNode = &discovery.Node{Name: c33System, Host: c33Host, PeersPort: n.peersPort, RemotingPort: n.remotingPort, DiscoveryPort: n.peersPort + 1000, Roles: n.roles}
		sys.cluster = n.cl
		sys.clusterStore = &c33Store{Store: cluster.NewMemoryStore(), w: w}
		sys.remoting = n.rem
		sys.locker.Unlock()
		sys.clusterEnabled.Store(true)
		sys.remotingEnabled.Store(true)
		sys.relocationEnabled.Store(true)
		sys.registry.Register(new(c33Actor))
		// the system actors a clustered start would have created
		if err := sys.spawnRelocator(ctx); err != nil {
			panic(fmt.Sprintf("c33: spawnRelocator: %v", err))
		}
		if err := sys.spawnSingletonManager(ctx); err != nil {
			panic(fmt.Sprintf("c33: spawnSingletonManager: %v", err))
		}
	}
	for _, n := range w.nodes {
		n.sys.cachePeerRemotingPorts(ctx)
	}
	vfSettle()
	return w
}

// leave removes the node from the member list (the membership layer's view after a departure) and
// stops its system WITHOUT the graceful cluster clean-up (its registry records stay, as after a crash or
// a shutdown whose clean-up did not complete) unless cleanRegistry is set (graceful leave).
func (w *c33World) leave(n *c33Node, cleanRegistry bool) {
	w.mu.Lock()
	n.member = false
	if cleanRegistry {
		hp := n.hostPort()
		for name, a := range w.actors {
			if got, ok := address.HostPortOf(a.GetAddress()); ok && got == hp {
				delete(w.actors, name)
			}
		}
	}
	w.mu.Unlock()
	w.stopNode(n)
}

func (w *c33World) stopNode(n *c33Node) {
	if n.stopped {
		return
	}
	n.stopped = true
	n.sys.clusterEnabled.Store(false)
	n.sys.remotingEnabled.Store(false)
	n.sys.relocationEnabled.Store(false)
	if err := vfStopSystem(n.sys); err != nil {
		panic(fmt.Sprintf("c33: stop node %d: %v", n.idx, err))
	}
}

func (w *c33World) stopAll() {
	for _, n := range w.nodes {
		w.stopNode(n)
	}
}

// takePending returns the intercepted RelocateBatch calls in a deterministic order (by target node,
// then arrival) and leaves them pending.
func (w *c33World) pendingCalls() []*c33BatchCall {
	w.mu.Lock()
	defer w.mu.Unlock()
	out := append([]*c33BatchCall(nil), w.pending...)
	sort.SliceStable(out, func(i, j int) bool { return out[i].to.idx < out[j].to.idx })
	return out
}

func (w *c33World) release(call *c33BatchCall, verdict int) {
	w.mu.Lock()
	for i, p := range w.pending {
		if p == call {
			w.pending = append(w.pending[:i], w.pending[i+1:]...)
			break
		}
	}
	w.batchLog = append(w.batchLog, fmt.Sprintf("n%d:%s(a%d,g%d)", call.to.idx, [...]string{"ok", "fail", "lost"}[verdict], len(call.req.GetActors()), len(call.req.GetGrains())))
	w.mu.Unlock()
	call.verdict <- verdict
}

func (w *c33World) releaseScans(err error) int {
	w.mu.Lock()
	chs := w.scanWait
	w.scanWait = nil
	w.mu.Unlock()
	for _, ch := range chs {
		ch <- err
	}
	return len(chs)
}

func (w *c33World) scansWaiting() int {
	w.mu.Lock()
	defer w.mu.Unlock()
	return len(w.scanWait)
}

// runningOn returns the indexes of the member nodes on which a live local actor with that name exists.
func (w *c33World) runningOn(name string) []int {
	var out []int
	for _, n := range w.nodes {
		if n.stopped {
			continue
		}
		if node, ok := n.sys.actors.nodeByName(name); ok {
			if pid := node.value(); pid != nil && pid.IsRunning() {
				out = append(out, n.idx)
			}
		}
	}
	return out
}

// nodeLeftEvent builds the cluster event the membership layer emits for a departed node.
func c33NodeLeftEvent(n *c33Node) *cluster.Event {
	return &cluster.Event{
		Type:    cluster.NodeLeft,
		Payload: &cluster.NodeLeftEvent{Address: n.peersAddr(), Timestamp: time.Now().UTC()},
	}
}
