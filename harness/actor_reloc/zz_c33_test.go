//go:build verif

package actor

// C33 - relocation accounts for every item and runs once per departure.
//
// One execution = one bubble cluster (zz_c33_env_test.go): the departing node D (oldest member, so that it
// may host a cluster singleton), the next-oldest node L (leader after the departure) and 0..2 peers, all
// REAL actor systems.  D's actors are spawned through the public API, its snapshot is built by the REAL
// preShutdown, stored in the survivors' stores (what D's graceful shutdown does), then D leaves.  From then
// on the explorer owns every source of non-determinism:
//
//   event "NodeLeft(D)"        the REAL handleNodeLeftEvent on every survivor; the first one is mandatory,
//                              up to two more (duplicates) may be delivered at ANY later decision point;
//   event "scan"               the load scan of the relocation worker (CountActorsByHost) is released
//                              (ok | registry error, cost 1);
//   event "batch -> peer"      an intercepted RelocateBatch attempt is released with a verdict:
//                              ok | transport error (cost 1) | handled by the peer but reply lost (cost 1)
//                              | peer unreachable from now on (cost 1);
//   event "snapshot-delete"    the DeletePeerState call of a finishing (or aborting) relocation, intercepted in the
//                              leader's peer-state store, is released - duplicates can thus arrive while the
//                              worker is inside its last bookkeeping step;
//   event "tick"               nothing to release but the relocation is still running (retry back-off):
//                              virtual time advances by one second;
//   event "end"                relocation finished: stop (or deliver a late duplicate first).
//
// vsched.Explore enumerates every event order and every fault placement within the fault budget.
//
// Oracle at the end (after all timers ran out), no more than the statement:
//   * every relocatable actor of D (as spawned by the harness, singleton included) runs on at most one
//     survivor, and if it runs on none it is listed in a RelocationFailed event;
//   * if every duplicate NodeLeft(D) was delivered while the relocation was in flight (an intercepted
//     call pending or a relocation worker alive - facts independent of the job table): at most one
//     relocation ran (one worker spawned, one RelocationStarted) and at most one RelocationFailed event
//     was published;
//   * the relocation terminates (the job is released) within 300 virtual seconds.

import (
	"context"
	"fmt"
	"os"
	"sort"
	"strings"
	"testing"
	"time"

	"github.com/tochemey/goakt/v4/internal/address"
	"github.com/tochemey/goakt/v4/internal/internalpb"
	"github.com/tochemey/goakt/v4/internal/verif/vsched"
)

type c33Spec struct {
	kind      string // obs label
	role      string
	singleton bool
	nonReloc  bool
}

type c33Scenario struct {
	name      string
	survivors [][]string // role sets: [0] = leader after the departure, then the peers
	actors    []c33Spec  // spawned on D; names a0..ak
	bulk      int        // additional role-less actors (big-batch scenario)
	grains    int        // lazy grain records owned by D
	clean     bool       // D's registry records were removed (graceful leave) instead of left stale
	dups      int        // duplicate NodeLeft(D) notifications available
	bound     int
}

func c33Repeat(s c33Spec, n int) []c33Spec {
	out := make([]c33Spec, n)
	for i := range out {
		out[i] = s
	}
	return out
}

func c33Scenarios() []c33Scenario {
	bound := vsched.Pick(1, 2)
	plain := c33Spec{kind: "P-"}
	r1 := c33Spec{kind: "P1", role: "r1"}
	r3 := c33Spec{kind: "P3", role: "r3"}
	single := c33Spec{kind: "S-", singleton: true}
	nonrel := c33Spec{kind: "N-", nonReloc: true}
	// small scenarios first: ExploreAll hands the time they leave over to the later (larger) ones
	scs := []c33Scenario{
		{name: "no-peer", survivors: [][]string{nil}, actors: append(c33Repeat(plain, 2), single), grains: 1, dups: 2, bound: 2},
		{name: "two-peers-clean-registry", survivors: [][]string{nil, nil, nil}, actors: c33Repeat(plain, 3), grains: 0, clean: true, dups: 1, bound: bound},
		{name: "roles", survivors: [][]string{nil, {"r1"}, {"r1"}}, actors: c33Repeat(r1, 2), grains: 0, dups: 1, bound: 2},
		{name: "one-peer-mixed", survivors: [][]string{nil, nil}, actors: append(c33Repeat(plain, 3), single, r3, nonrel), grains: 2, dups: 2, bound: 2},
		{name: "two-peers", survivors: [][]string{nil, nil, nil}, actors: c33Repeat(plain, 4), grains: 3, dups: 2, bound: bound},
	}
	if vsched.Rep().Thorough() {
		scs = append(scs,
			c33Scenario{name: "two-batches", survivors: [][]string{nil, nil}, bulk: 2*defaultRelocationBatchSize + 3, dups: 1, bound: 2},
			c33Scenario{name: "three-peers", survivors: [][]string{nil, nil, nil, nil}, actors: c33Repeat(plain, 4), grains: 4, dups: 1, bound: 2},
		)
	}
	return scs
}

const c33MaxTicks = 300

func c33Run(t *testing.T, sc c33Scenario, c *vsched.Chooser) (out vsched.Outcome) {
	var viol []vsched.Violation
	fail := func(sig, format string, a ...any) { viol = append(viol, vsched.Fail(sig, format, a...)) }
	var obs []string
	invalid := ""

	p := vfBubble(t, func() {
		ctx := context.Background()
		w := c33NewWorld(append([][]string{nil}, sc.survivors...))
		d, leader := w.nodes[0], w.nodes[1]
		survivors := w.nodes[1:]

		// --- D's population -------------------------------------------------------------------
		type item struct {
			name string
			spec c33Spec
		}
		var items []item
		for i, sp := range sc.actors {
			name := fmt.Sprintf("a%d", i)
			var err error
			if sp.singleton {
				_, err = d.sys.SpawnSingleton(ctx, name, &c33Actor{})
			} else {
				opts := []SpawnOption{WithLongLived()}
				if sp.role != "" {
					opts = append(opts, WithRole(sp.role))
				}
				if sp.nonReloc {
					opts = append(opts, WithRelocationDisabled())
				}
				_, err = d.sys.Spawn(ctx, name, &c33Actor{}, opts...)
			}
			if err != nil {
				panic(fmt.Sprintf("c33: spawn %s on D: %v", name, err))
			}
			items = append(items, item{name, sp})
		}
		for i := 0; i < sc.bulk; i++ {
			name := fmt.Sprintf("b%d", i)
			if _, err := d.sys.Spawn(ctx, name, &c33Actor{}, WithLongLived()); err != nil {
				panic(fmt.Sprintf("c33: spawn %s on D: %v", name, err))
			}
			items = append(items, item{name, c33Spec{kind: "P-"}})
		}
		vfSettle()
		snap, err := d.sys.preShutdown()
		if err != nil || snap == nil {
			panic(fmt.Sprintf("c33: preShutdown: %v", err))
		}
		for g := 0; g < sc.grains; g++ {
			wg := &internalpb.Grain{GrainId: &internalpb.GrainId{Kind: "actor.c33Grain", Name: fmt.Sprintf("g%d", g), Value: fmt.Sprintf("actor.c33Grain/g%d", g)}, Host: c33Host, Port: int32(d.remotingPort)}
			if snap.Grains == nil {
				snap.Grains = map[string]*internalpb.Grain{}
			}
			snap.Grains[wg.GetGrainId().GetValue()] = wg
			_ = d.cl.PutGrain(ctx, wg)
		}
		// D's graceful shutdown hands its snapshot to every peer before leaving
		for _, n := range survivors {
			if err := n.sys.clusterStore.PersistPeerState(ctx, snap); err != nil {
				panic(err)
			}
		}
		w.leave(d, sc.clean)
		sub, err := leader.sys.Subscribe()
		if err != nil {
			panic(err)
		}
		w.mu.Lock()
		w.gateBatches, w.gateScan, w.gateDelete = true, true, true
		w.mu.Unlock()

		deliver := func() {
			ev := c33NodeLeftEvent(d)
			for _, n := range survivors {
				n.handleNodeLeft(ev)
			}
		}
		workerAlive := func() bool { return len(leader.sys.relocator.Children()) > 0 }
		jobOpen := func() bool { _, ok := leader.sys.relocationJob(d.peersAddr()); return ok }

		// --- the event loop --------------------------------------------------------------------
		deliver()
		dupsLeft, ticks := sc.dups, 0
		allDupsInFlight := true
		var trail []string
		for step := 0; ; step++ {
			vfSettle()
			if step > 400 {
				invalid = "step limit"
				break
			}
			pend := w.pendingCalls()
			sort.SliceStable(pend, func(i, j int) bool {
				a, b := pend[i], pend[j]
				if a.to.idx != b.to.idx {
					return a.to.idx < b.to.idx
				}
				if len(a.req.GetActors()) != len(b.req.GetActors()) {
					return len(a.req.GetActors()) < len(b.req.GetActors())
				}
				return len(a.req.GetGrains()) < len(b.req.GetGrains())
			})
			scans := w.scansWaiting()
			deletes := w.deletesWaiting()
			alive := workerAlive()
			inFlight := len(pend) > 0 || scans > 0 || deletes > 0 || alive

			type event struct {
				label string
				fire  func()
			}
			var events []event
			if scans > 0 {
				events = append(events, event{"scan", func() {
					v := c.Choose("scan", 2, []int{0, 1}, func(i int) string { return [...]string{"ok", "registry-error"}[i] })
					if v == 0 {
						w.releaseScans(nil)
					} else {
						w.releaseScans(fmt.Errorf("c33: injected registry scan failure"))
					}
					trail = append(trail, [...]string{"scan", "scan!"}[v])
				}})
			}
			if deletes > 0 {
				events = append(events, event{"snapshot-delete", func() {
					w.releaseDeletes()
					trail = append(trail, "del")
				}})
			}
			for _, call := range pend {
				call := call
				events = append(events, event{fmt.Sprintf("batch->n%d(a%d,g%d)", call.to.idx, len(call.req.GetActors()), len(call.req.GetGrains())), func() {
					v := c.Choose("verdict", 4, []int{0, 1, 1, 1}, func(i int) string { return [...]string{"ok", "transport-error", "reply-lost", "peer-down"}[i] })
					switch v {
					case 0:
						w.release(call, c33BatchOK)
					case 1:
						w.release(call, c33BatchFail)
					case 2:
						w.release(call, c33BatchLost)
					case 3:
						w.mu.Lock()
						w.down[call.to.idx] = true
						w.mu.Unlock()
						w.release(call, c33BatchFail)
					}
					trail = append(trail, fmt.Sprintf("n%d%s", call.to.idx, [...]string{"", "!err", "!lost", "!down"}[v]))
				}})
			}
			if len(events) == 0 {
				if inFlight || jobOpen() {
					events = append(events, event{"tick", func() {
						ticks++
						time.Sleep(time.Second)
					}})
				} else {
					events = append(events, event{"end", nil})
				}
			}
			if dupsLeft > 0 {
				events = append(events, event{"NodeLeft(D) again", func() {
					dupsLeft--
					if !inFlight {
						allDupsInFlight = false
					}
					deliver()
					trail = append(trail, map[bool]string{true: "dup", false: "late-dup"}[inFlight])
				}})
			}
			pick := 0
			if len(events) > 1 {
				pick = c.Choose("event", len(events), nil, func(i int) string { return events[i].label })
			}
			if events[pick].fire == nil {
				break
			}
			events[pick].fire()
			if ticks > c33MaxTicks {
				fail("relocation-never-completes", "the relocation of %s is still in flight after %d virtual seconds (trail %v)", d.peersAddr(), ticks, trail)
				break
			}
		}
		// --- drain: open the gates, let every timer and background goroutine finish -----------
		w.mu.Lock()
		w.gateBatches, w.gateScan, w.gateDelete = false, false, false
		w.mu.Unlock()
		w.releaseDeletes()
		for _, call := range w.pendingCalls() {
			w.release(call, c33BatchOK)
		}
		w.releaseScans(nil)
		vfSettle()
		time.Sleep(5 * time.Minute)
		vfSettle()

		// --- observations ----------------------------------------------------------------------
		runs := int(leader.sys.relocator.Actor().(*relocator).sequence)
		started, failedEvents := 0, 0
		listed := map[string]int{}
		for m := range sub.Iterator() {
			switch ev := m.Payload().(type) {
			case *RelocationStarted:
				if ev.Address() == d.peersAddr() {
					started++
				}
			case *RelocationFailed:
				if ev.Address() != d.peersAddr() {
					continue
				}
				failedEvents++
				for _, id := range ev.Actors() {
					if addr, err := address.Parse(id); err == nil {
						listed[addr.Name()]++
					}
				}
			}
		}
		var place []string
		for _, it := range items {
			on := w.runningOn(it.name)
			if !it.spec.nonReloc {
				if len(on) > 1 {
					fail("actor-running-on-two-survivors", "%s(%s) runs on nodes %v (trail %v)", it.name, it.spec.kind, on, trail)
				}
				if len(on) == 0 && listed[it.name] == 0 {
					fail("actor-lost-unreported", "%s(%s) runs nowhere and is not listed in a RelocationFailed event (events=%d, trail %v)", it.name, it.spec.kind, failedEvents, trail)
				}
			}
			if sc.bulk == 0 {
				tag := it.spec.kind + "@"
				for _, n := range on {
					tag += fmt.Sprint(n)
				}
				if listed[it.name] > 0 {
					tag += "F"
				}
				place = append(place, tag)
			}
		}
		if allDupsInFlight {
			if runs > 1 {
				fail("second-relocation-started-while-in-flight", "%d relocation workers were started for one departure (trail %v)", runs, trail)
			}
			if started > 1 {
				fail("relocation-started-event-count", "%d RelocationStarted events for one departure (trail %v)", started, trail)
			}
			if failedEvents > 1 {
				fail("several-relocation-failed-events", "%d RelocationFailed events for one departure (trail %v)", failedEvents, trail)
			}
		}
		if jobOpen() {
			fail("relocation-job-never-released", "job for %s still registered at the end (trail %v)", d.peersAddr(), trail)
		}
		sort.Strings(place)
		obs = append(obs, strings.Join(trail, ","), strings.Join(place, " "), fmt.Sprintf("runs=%d started=%d failed-events=%d", runs, started, failedEvents))
		w.stopAll()
	})
	if p != nil {
		viol = append(viol, vsched.Fail("panic-during-relocation", "%v", p))
	}
	if os.Getenv("VERIF_C33_DUMP") != "" { // development aid
		fmt.Printf("C33 %s choices=%v => %s viol=%v invalid=%q\n", sc.name, c.Choices(), strings.Join(obs, " | "), viol, invalid)
	}
	return vsched.Outcome{Obs: strings.Join(obs, " | "), Violations: viol, Invalid: invalid}
}

func TestVerifC33(t *testing.T) {
	defer vsched.Finish(t)
	var scs []vsched.Scenario
	for _, sc := range c33Scenarios() {
		sc := sc
		var kinds []string
		for _, a := range sc.actors {
			kinds = append(kinds, a.kind)
		}
		scs = append(scs, vsched.Scenario{
			Cfg: vsched.Config{Scenario: sc.name, Bound: sc.bound, Params: map[string]any{
				"survivor_roles(leader first)": fmt.Sprint(sc.survivors), "departed_actors": strings.Join(kinds, ","), "bulk_actors": sc.bulk,
				"lazy_grains": sc.grains, "registry_records_of_D": map[bool]string{true: "removed (graceful)", false: "stale"}[sc.clean],
				"duplicate_NodeLeft": sc.dups, "fault_budget": sc.bound,
			}},
			Run: func(c *vsched.Chooser) vsched.Outcome { return c33Run(t, sc, c) },
		})
	}
	vsched.ExploreAll(scs)
}
