//go:build verif

package actor

import (
	"context"
	"fmt"
	"testing"
	"time"

	"github.com/tochemey/goakt/v4/internal/verif/vsched"
)

func TestVerifC33(t *testing.T) {
	defer vsched.Finish(t)
	p := vfBubble(t, func() {
		ctx := context.Background()
		w := c33NewWorld([][]string{nil, nil, nil})
		d := w.nodes[2]
		for i := 0; i < 3; i++ {
			if _, err := d.sys.Spawn(ctx, fmt.Sprintf("a%d", i), &c33Actor{}, WithLongLived()); err != nil {
				panic(err)
			}
		}
		vfSettle()
		snap, err := d.sys.preShutdown()
		if err != nil {
			panic(err)
		}
		fmt.Printf("PROBE snapshot actors=%d host=%s pp=%d rp=%d\n", len(snap.GetActors()), snap.GetHost(), snap.GetPeersPort(), snap.GetRemotingPort())
		for _, n := range w.nodes[:2] {
			_ = n.sys.clusterStore.PersistPeerState(ctx, snap)
		}
		w.leave(d, false)
		t0 := time.Now()
		for _, n := range w.nodes[:2] {
			n.sys.handleNodeLeftEvent(c33NodeLeftEvent(d))
		}
		vfSettle()
		for i := 0; i < 3; i++ {
			fmt.Printf("PROBE a%d on %v\n", i, w.runningOn(fmt.Sprintf("a%d", i)))
		}
		fmt.Printf("PROBE elapsed %v jobs=%d\n", time.Since(t0), len(w.nodes[0].sys.relocationJobs))
		time.Sleep(time.Minute)
		vfSettle()
		w.stopAll()
	})
	if p != nil {
		t.Fatalf("panic: %v", p)
	}
}
