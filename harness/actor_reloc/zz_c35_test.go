//go:build verif

package actor

// C35 - relocation handoff masking respects caller deadlines.
//
// One case = one bubble with ONE real clustered-mode node A (zz_c33_env_test.go): real PID.SendSync /
// PID.SendAsync, real deliverAcrossHandoff / deliverBypassingHandoff / sleepWithinHandoff, real ActorOf,
// real relocatingEndpoints TTL map (marked through the real markEndpointRelocating).  The registry is the
// fake in-memory one; the transport stub answers RemoteAsk/RemoteTell per endpoint:
//   departed endpoint E : "refuse" (immediate transport error) or "blackhole" (no answer: returns a
//                         timeout error when ctx's deadline or the ask timeout elapses, whichever is first -
//                         the documented bound of remoteclient.RemoteAsk);
//   survivor endpoint S : replies after a latency (0 / 100ms) or never (same timeout rule).
// A case is (caller timeout) x (handoff state): is E marked relocating and how old is the mark, does the
// registry record of the target point at E or is it absent, and a script of timed registry changes (record
// rewritten to S at tau, actor recreated locally on A at tau through the real recreateActorFromWire, record
// removed and re-written later = the remove-then-respawn gap), with tau around every back-off boundary.
//
// Oracle (virtual time only):
//   SendSync : elapsed <= timeout; if it fails, the error is one of the transient ("retry later") errors;
//   SendAsync: elapsed == 0 at every probe instant; a target pinned to an endpoint inside its handoff
//              window is not dialled and the call fails with a transient error.

import (
	"context"
	"errors"
	"fmt"
	"os"
	"strings"
	"syscall"
	"testing"
	"time"

	gerrors "github.com/tochemey/goakt/v4/errors"
	"github.com/tochemey/goakt/v4/internal/address"
	"github.com/tochemey/goakt/v4/internal/internalpb"
	"github.com/tochemey/goakt/v4/internal/types"
	"github.com/tochemey/goakt/v4/internal/verif/vsched"
)

const (
	c35DepartedPeers = "127.0.0.1:8050"
	c35DepartedPort  = 9050
	c35SurvivorPort  = 9060
	c35Target        = "target"
)

type c35Action struct {
	at   time.Duration
	what string // "toS" | "local" | "remove"
}

type c35State struct {
	marked  bool
	markAge time.Duration
	pinned  bool // the registry record of the target points at E (else: no record)
	script  []c35Action
	dead    string        // "refuse" | "blackhole"
	latency time.Duration // survivor reply latency; <0 = never replies
}

func (s c35State) String() string {
	var sc []string
	for _, a := range s.script {
		sc = append(sc, fmt.Sprintf("%s@%v", a.what, a.at))
	}
	mark := "unmarked"
	if s.marked {
		mark = fmt.Sprintf("marked(age %v)", s.markAge)
	}
	rec := "no-record"
	if s.pinned {
		rec = "record->E"
	}
	lat := "S-never-replies"
	if s.latency >= 0 {
		lat = fmt.Sprintf("S-replies-after-%v", s.latency)
	}
	return fmt.Sprintf("%s %s script[%s] E-%s %s", mark, rec, strings.Join(sc, " "), s.dead, lat)
}

// c35Transient: the errors this code base documents as transient send failures a caller may retry.
func c35Transient(err error) bool {
	for _, t := range []error{gerrors.ErrRelocationInProgress, gerrors.ErrActorNotFound, gerrors.ErrAddressNotFound,
		gerrors.ErrRequestTimeout, gerrors.ErrRemoteSendFailure, context.DeadlineExceeded, syscall.ECONNREFUSED} {
		if errors.Is(err, t) {
			return true
		}
	}
	return false
}

func c35ErrClass(err error) string {
	switch {
	case err == nil:
		return "ok"
	case errors.Is(err, gerrors.ErrRelocationInProgress):
		return "relocation-in-progress"
	case errors.Is(err, gerrors.ErrActorNotFound):
		return "not-found"
	case errors.Is(err, gerrors.ErrRequestTimeout), errors.Is(err, context.DeadlineExceeded):
		return "timeout"
	case errors.Is(err, gerrors.ErrRemoteSendFailure), errors.Is(err, syscall.ECONNREFUSED):
		return "send-failure"
	}
	return "other"
}

// c35World builds node A in the given handoff state; it returns the caller PID and a dial log.
type c35Env struct {
	w      *c33World
	a      *c33Node
	caller *PID
	dials  []string // "<kind>:<port>@<virtual ms since t0>"
	t0     time.Time
	markAt time.Time
}

func c35Wire(port int) *internalpb.Actor {
	return &internalpb.Actor{Address: address.New(c35Target, c33System, c33Host, port).String(), Type: types.Name(new(c33Actor)), Relocatable: true}
}

func c35NewEnv(st c35State) *c35Env {
	ctx := context.Background()
	e := &c35Env{}
	e.w = c33NewWorld([][]string{nil})
	e.a = e.w.nodes[0]
	var err error
	if e.caller, err = e.a.sys.Spawn(ctx, "caller", &c33Actor{}, WithLongLived()); err != nil {
		panic(err)
	}
	if st.pinned {
		_ = e.a.cl.PutActor(ctx, c35Wire(c35DepartedPort))
	}
	if st.marked {
		e.a.sys.peerRemotingPorts.Set(c35DepartedPeers, c35DepartedPort)
		e.a.sys.markEndpointRelocating(c35DepartedPeers)
		e.markAt = time.Now()
		if st.markAge > 0 {
			time.Sleep(st.markAge)
		}
	}
	wait := func(ctx context.Context, timeout time.Duration) error {
		tm := time.NewTimer(timeout)
		defer tm.Stop()
		select {
		case <-ctx.Done():
			return errors.Join(ctx.Err(), gerrors.ErrRequestTimeout)
		case <-tm.C:
			return gerrors.ErrRequestTimeout
		}
	}
	e.a.rem.askFn = func(ctx context.Context, to *address.Address, _ any, timeout time.Duration) (any, error) {
		e.dials = append(e.dials, fmt.Sprintf("ask:%d@%d", to.Port(), time.Since(e.t0).Milliseconds()))
		switch to.Port() {
		case c35DepartedPort:
			if st.dead == "refuse" {
				return nil, fmt.Errorf("dial %s: %w", to.HostPort(), syscall.ECONNREFUSED)
			}
			return nil, wait(ctx, timeout)
		case c35SurvivorPort:
			if st.latency < 0 {
				return nil, wait(ctx, timeout)
			}
			if st.latency > 0 {
				if st.latency >= timeout {
					return nil, wait(ctx, timeout)
				}
				tm := time.NewTimer(st.latency)
				defer tm.Stop()
				select {
				case <-ctx.Done():
					return nil, errors.Join(ctx.Err(), gerrors.ErrRequestTimeout)
				case <-tm.C:
				}
			}
			return &c33Pong{}, nil
		}
		return nil, gerrors.ErrRemoteSendFailure
	}
	e.a.rem.tellFn = func(_ context.Context, to *address.Address, _ any) error {
		e.dials = append(e.dials, fmt.Sprintf("tell:%d@%d", to.Port(), time.Since(e.t0).Milliseconds()))
		if to.Port() == c35DepartedPort && st.dead == "refuse" {
			return fmt.Errorf("dial %s: %w", to.HostPort(), syscall.ECONNREFUSED)
		}
		return nil // fire-and-forget: written to the socket (or lost in the black hole)
	}
	vfSettle()
	return e
}

// startScript arms the timed registry changes relative to now.
func (e *c35Env) startScript(st c35State) []*time.Timer {
	ctx := context.Background()
	var timers []*time.Timer
	for _, act := range st.script {
		act := act
		timers = append(timers, time.AfterFunc(act.at, func() {
			switch act.what {
			case "toS":
				_ = e.a.cl.PutActor(ctx, c35Wire(c35SurvivorPort))
			case "remove":
				_ = e.a.cl.RemoveActor(ctx, c35Target)
			case "local":
				// the relocation of the target lands on this very node
				_ = e.a.cl.PutActor(ctx, c35Wire(c35DepartedPort))
				_ = e.a.sys.recreateActorFromWire(ctx, c35Wire(c35DepartedPort), address.FormatHostPort(c33Host, c35DepartedPort))
			}
		}))
	}
	return timers
}

func (e *c35Env) stop(timers []*time.Timer) {
	for _, t := range timers {
		t.Stop()
	}
	vfSettle()
	e.w.stopAll()
}

func c35States() []c35State {
	ms := time.Millisecond
	// tau never coincides with a retry instant (50,150,350,650,950,... ms), a caller deadline or the end of
	// the window: the outcome of two timers firing at the same virtual instant would depend on their order
	taus := []time.Duration{2 * ms, 49 * ms, 51 * ms, 151 * ms, 349 * ms, 499 * ms, 501 * ms, 651 * ms,
		relocationHandoffWindow - 2*ms, relocationHandoffWindow + 2*ms}
	lats := []time.Duration{0, -1}
	if vsched.Rep().Thorough() {
		taus = []time.Duration{2 * ms, 49 * ms, 51 * ms, 149 * ms, 151 * ms, 349 * ms, 351 * ms, 499 * ms, 501 * ms, 649 * ms, 651 * ms,
			949 * ms, 951 * ms, relocationHandoffWindow - 2*ms, relocationHandoffWindow + 2*ms}
		lats = []time.Duration{0, 100 * ms, -1}
	}
	type mark struct {
		marked bool
		age    time.Duration
	}
	marks := []mark{{false, 0}, {true, 0}, {true, relocationHandoffWindow - 10*ms}}
	var out []c35State
	for _, mk := range marks {
		for _, pinned := range []bool{true, false} {
			var scripts [][]c35Action
			scripts = append(scripts, nil)
			for _, tau := range taus {
				scripts = append(scripts, []c35Action{{tau, "toS"}}, []c35Action{{tau, "local"}})
			}
			if pinned {
				for _, t2 := range []time.Duration{540 * ms, 560 * ms, 640 * ms, 660 * ms} {
					scripts = append(scripts, []c35Action{{100 * ms, "remove"}, {t2, "toS"}})
				}
				// pinned to the departing endpoint until tau, then the record disappears for good: the
				// not-found mask starts late, after part of the caller's budget is already spent
				for _, t1 := range []time.Duration{49 * ms, 51 * ms, 149 * ms, 151 * ms, 349 * ms, 351 * ms, 649 * ms, 651 * ms} {
					scripts = append(scripts, []c35Action{{t1, "remove"}})
				}
			}
			for _, sc := range scripts {
				for _, dead := range []string{"refuse", "blackhole"} {
					for _, lat := range lats {
						out = append(out, c35State{marked: mk.marked, markAge: mk.age, pinned: pinned, script: sc, dead: dead, latency: lat})
					}
				}
			}
		}
	}
	return out
}

func TestVerifC35(t *testing.T) {
	defer vsched.Finish(t)
	ms := time.Millisecond
	timeouts := []time.Duration{1 * ms, 50 * ms, 700 * ms, time.Second, relocationHandoffWindow - ms, relocationHandoffWindow, relocationHandoffWindow + ms, 10 * time.Second}
	if vsched.Rep().Thorough() { // more deadlines inside the window (none coincides with a script instant)
		timeouts = append(timeouts, 120*ms, 400*ms, 2*time.Second)
	}
	states := c35States()
	e := vsched.NewEnum("handoff", map[string]any{
		"timeouts": fmt.Sprint(timeouts), "states": len(states),
		"state_space": "mark {none, fresh, window-10ms old} x record {->E, absent} x script {none, ->S at tau, recreated locally at tau, removed@100ms then ->S, removed at tau for good} x E {refuse, blackhole} x S latency {0,(thorough: 100ms),never}; tau = back-off boundaries +-1ms (thorough: more of them)",
		"window":      relocationHandoffWindow.String(), "not_found_mask": relocationNotFoundMaskWindow.String(),
	})
	defer e.Done()
	ctx := context.Background()
	for _, st := range states {
		for _, timeout := range timeouts {
			if !e.Mine() {
				continue
			}
			input := fmt.Sprintf("timeout=%v state: %s", timeout, st)
			var syncErr error
			var syncElapsed time.Duration
			var syncResp any
			var asyncObs []string
			p := vfBubble(t, func() {
				// ---- SendSync ----
				env := c35NewEnv(st)
				timers := env.startScript(st)
				env.t0 = time.Now()
				syncResp, syncErr = env.caller.SendSync(ctx, c35Target, &c33Ping{}, timeout)
				syncElapsed = time.Since(env.t0)
				env.stop(timers)

				// ---- SendAsync at several instants of the same state ----
				env = c35NewEnv(st)
				timers = env.startScript(st)
				env.t0 = time.Now()
				probes := []time.Duration{0}
				for _, a := range st.script {
					probes = append(probes, a.at+ms)
				}
				probes = append(probes, relocationHandoffWindow+5*ms)
				for _, at := range probes {
					if d := at - time.Since(env.t0); d > 0 {
						time.Sleep(d)
					}
					vfSettle()
					before := time.Now()
					nd := len(env.dials)
					// reference facts about the state at this instant
					rec, gerr := env.a.cl.GetActor(ctx, c35Target)
					_, local := env.a.sys.actors.nodeByName(c35Target)
					pinnedNow := false
					if gerr == nil && !local {
						if ra, perr := address.Parse(rec.GetAddress()); perr == nil && ra.Port() == c35DepartedPort {
							pinnedNow = true
						}
					}
					sinceMark := time.Since(env.markAt)
					insideWindow := st.marked && sinceMark < relocationHandoffWindow
					err := env.caller.SendAsync(ctx, c35Target, &c33Ping{})
					el := time.Since(before)
					if el != 0 {
						e.Fail("sendasync-slept", input, "SendAsync at +%v took %v of virtual time (err=%v)", at, el, err)
					}
					if pinnedNow && insideWindow {
						if len(env.dials) != nd {
							e.Fail("sendasync-dialled-relocating-endpoint", input, "SendAsync at +%v dialled %v", at, env.dials[nd:])
						}
						if err == nil || !c35Transient(err) {
							e.Fail("sendasync-unresolved-without-retryable-error", input, "SendAsync at +%v to a target pinned to a relocating endpoint returned %v", at, err)
						}
					} else if err != nil && !c35Transient(err) {
						e.Fail("sendasync-non-retryable-error", input, "SendAsync at +%v returned %v", at, err)
					}
					asyncObs = append(asyncObs, fmt.Sprintf("+%v:%s", at, c35ErrClass(err)))
				}
				env.stop(timers)
			})
			if p != nil {
				e.Fail("panic-in-send", input, "%v", p)
				e.Case(input, "panic", 1, true)
				continue
			}
			if syncElapsed > timeout {
				e.Fail("sendsync-exceeds-caller-timeout", input, "SendSync(timeout=%v) returned after %v of virtual time (err=%v)", timeout, syncElapsed, syncErr)
			}
			if syncErr != nil && !c35Transient(syncErr) {
				e.Fail("sendsync-non-retryable-error", input, "SendSync returned %v after %v", syncErr, syncElapsed)
			}
			_ = syncResp
			obs := fmt.Sprintf("sync:%s after %v | async %s", c35ErrClass(syncErr), syncElapsed, strings.Join(asyncObs, " "))
			if os.Getenv("VERIF_C35_DUMP") != "" { // development aid
				fmt.Printf("C35 %s => %s\n", input, obs)
			}
			e.Case(input, obs, 1+len(asyncObs), st.marked || len(st.script) > 0)
		}
	}
}
