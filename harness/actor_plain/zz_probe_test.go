//go:build verif

package actor

import (
	"context"
	"testing"
	"time"

	"github.com/tochemey/goakt/v4/internal/verif/vsched"
	"github.com/tochemey/goakt/v4/passivation"
)

type vfProbeActor struct{ log *vfLog }

func (a *vfProbeActor) PreStart(*Context) error { a.log.add("pre"); return nil }
func (a *vfProbeActor) Receive(ctx *ReceiveContext) {
	switch ctx.Message().(type) {
	case *PostStart:
	default:
		a.log.add("recv")
		ctx.Response("pong")
	}
}
func (a *vfProbeActor) PostStop(*Context) error { a.log.add("post"); return nil }

func TestVerifProbe(t *testing.T) {
	defer vsched.Finish(t)
	start := time.Now()
	n := 200
	for i := 0; i < n; i++ {
		l := &vfLog{}
		p := vfBubble(t, func() {
			sys := vfNewSystem("probe")
			pid, err := sys.Spawn(context.Background(), "a", &vfProbeActor{log: l}, WithPassivationStrategy(passivation.NewTimeBasedStrategy(5*time.Second)))
			if err != nil {
				panic(err)
			}
			r, err := Ask(context.Background(), pid, "ping", time.Second)
			if err != nil || r != "pong" {
				panic("ask failed")
			}
			time.Sleep(6 * time.Second)
			vfSettle()
			if pid.IsRunning() {
				panic("not passivated")
			}
			if err := vfStopSystem(sys); err != nil {
				panic(err)
			}
		})
		if p != nil {
			t.Fatalf("iteration %d: %v", i, p)
		}
	}
	t.Logf("%d lifecycles in %v", n, time.Since(start))
}
