//go:build verif

package actor

import (
	"context"
	"fmt"
	"sync"
	"testing"
	"time"

	"github.com/tochemey/goakt/v4/internal/timer"
	"github.com/tochemey/goakt/v4/internal/verif/vsched"
	"github.com/tochemey/goakt/v4/log"
)

// ---------------------------------------------------------------------------------------------
// Whole-system-in-a-bubble helpers shared by the harnesses of package actor.
// ---------------------------------------------------------------------------------------------

// vfResetPools must be called before/after every bubble: package level pools would otherwise carry
// channels and timers created in one bubble into the next, which the runtime rejects.
func vfResetPools() {
	for {
		select {
		case <-responseCh:
			continue
		default:
		}
		break
	}
	for {
		select {
		case <-errorCh:
			continue
		default:
		}
		break
	}
	timers = timer.NewPool()
}

// vfNewSystem creates and starts a non-clustered actor system (must be called inside a bubble).
func vfNewSystem(name string, opts ...Option) *actorSystem {
	all := append([]Option{WithLogger(log.DiscardLogger)}, opts...)
	sys, err := NewActorSystem(name, all...)
	if err != nil {
		panic(fmt.Sprintf("vfNewSystem: %v", err))
	}
	if err := sys.Start(context.Background()); err != nil {
		panic(fmt.Sprintf("vfNewSystem start: %v", err))
	}
	return sys.(*actorSystem)
}

// vfStopSystem stops the system and the goroutine Stop leaves behind in non-remoting mode (a
// bubble cannot end with a blocked goroutine).
func vfStopSystem(sys *actorSystem) error {
	err := sys.Stop(context.Background())
	sys.stopCoalescedFailureDrain()
	return err
}

// vfBubble runs f inside a fresh bubble with clean pools; a panic in the bubble's root goroutine is
// returned.
func vfBubble(t *testing.T, f func()) any {
	vfResetPools()
	defer vfResetPools()
	return vsched.Bubble(t, f)
}

// vfSettle waits until every goroutine of the bubble is durably blocked.
func vfSettle() { vsched.Settle() }

// vfLog is a tiny concurrency-safe event log used by test actors.
type vfLog struct {
	mu sync.Mutex
	ev []string
}

func (l *vfLog) add(format string, a ...any) {
	l.mu.Lock()
	l.ev = append(l.ev, fmt.Sprintf(format, a...))
	l.mu.Unlock()
}

func (l *vfLog) snapshot() []string {
	l.mu.Lock()
	defer l.mu.Unlock()
	return append([]string(nil), l.ev...)
}

var _ = time.Second
