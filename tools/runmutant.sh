#!/bin/bash
# usage: runmutant.sh <worktree> <patch> <ID> [budget] [scenario-filter]
# applies the patch in the scratch worktree, runs the check against it, reverts; prints CAUGHT/MISSED.
WT=$1; PATCH=$2; ID=$3; BUDGET=${4:-40}; FILTER=$5
cd $WT && git checkout -q -- . && git apply $PATCH || { echo "APPLY-FAILED $PATCH"; exit 3; }
cd /verif
OUT=$(VERIF_REPO=$WT VERIF_SCENARIO_FILTER=$FILTER bin/check $ID --budget $BUDGET 2>&1)
RC=$?
cd $WT && git checkout -q -- .
SIGS=$(echo "$OUT" | grep -o "signature=[^ ]*" | sort -u | tr '\n' ' ')
if echo "$OUT" | grep -q "^VIOLATION"; then echo "CAUGHT $(basename $PATCH) by $ID rc=$RC $SIGS"; else echo "MISSED $(basename $PATCH) by $ID rc=$RC $(echo "$OUT" | grep -E 'BUILD-ERROR|SHARD-CRASH' | head -2)"; fi
