#!/bin/bash
# runs every registered check (quick tier) once, sequentially; prints one summary line per check
cd /verif
TIER=${1:-quick}
for id in $(python3 -c "import json;print(' '.join(c['property_id'] for c in json.load(open('MANIFEST.json'))['checks']))"); do
  s=$(date +%s)
  out=$(bin/check $id --tier $TIER 2>&1); rc=$?
  e=$(( $(date +%s) - s ))
  echo "$id rc=$rc ${e}s $(echo "$out" | grep -E '^check ' | sed 's/^check [A-Z0-9]* //') KF=$(echo "$out" | grep -c '^KNOWN-FINDING') VIOL=$(echo "$out" | grep -c '^VIOLATION') $(echo "$out" | grep -E 'BUILD-ERROR|SHARD-CRASH' | head -1)"
  [ $rc -ne 0 ] && echo "$out" | grep -A3 '^VIOLATION' | head -12
done
