#!/usr/bin/env python3
"""markfixed.py <ID> <commit> [signature-regex]: move matching findings of known_findings.d/<ID>.json to its fixed list."""
import json,sys,re,os
pid,commit=sys.argv[1],sys.argv[2]
rx=re.compile(sys.argv[3]) if len(sys.argv)>3 else re.compile('.*')
f=os.path.join(os.path.dirname(os.path.dirname(os.path.abspath(__file__))),'known_findings.d',pid+'.json')
c=json.load(open(f))
keep=[]
c.setdefault('fixed',[])
for x in c.get('findings',[]):
    if x['property']==pid and rx.fullmatch(x['signature']):
        c['fixed'].append({"property":pid,"commit":commit,"what":"fixed: property=%s %s %s [was signature %s]"%(pid,commit,x['what'],x['signature'])})
    else:
        keep.append(x)
c['findings']=keep
json.dump(c,open(f,'w'),indent=1)
print(pid,"findings left:",len(keep),"fixed:",len(c['fixed']))
