#!/usr/bin/env python3
"""Generates /verif/MANIFEST.json from checks.json (single source of truth for registered checks)."""
import json, os
V = os.path.dirname(os.path.dirname(os.path.abspath(__file__)))
import importlib.machinery, importlib.util
_l = importlib.machinery.SourceFileLoader("check", os.path.join(V, "bin", "check"))
_spec = importlib.util.spec_from_loader("check", _l)
_m = importlib.util.module_from_spec(_spec)
_l.exec_module(_m)
cfg = _m.load_cfg()
props = [json.loads(l) for l in open(os.path.join(V, "properties.jsonl"))]
ids = [p["id"] for p in props]
checks = []
for pid in ids:
    ck = cfg["checks"].get(pid)
    if not ck or ck.get("disabled"):
        continue
    c = {
        "property_id": pid,
        "quick_cmd": "bin/check %s --tier quick" % pid,
        "thorough_cmd": "bin/check %s --tier thorough" % pid,
        "evidence_file": "evidence/%s.json" % pid,
        "replay_cmd_template": "bin/check %s --replay {path}" % pid,
        "engine": ck.get("engine", "bubblesched" if ck["level"] in ("exploration", "fault_enumeration") else "seqmc"),
        "level_claimed": {"category": ck["level"], "text": ck.get("level_text", ""), "design_ref": ck.get("design_ref", "DESIGN.md §6 " + pid)},
        "level_note": ck.get("level_note", ""),
        "technique": ck.get("technique", ""),
    }
    checks.append(c)
na = []
for pid in ids:
    if pid not in [c["property_id"] for c in checks]:
        reason = cfg.get("not_applicable", {}).get(pid, "check not built yet in this session (planned, see DESIGN.md §6); not decided by any other technique")
        na.append({"property_id": pid, "reason": reason})
man = {
    "version": 1,
    "setup_cmd": "bin/setup",
    "hooks": {
        "guard": "verif",
        "enable": "no source hooks: instrumentation (sync/atomic shims, channel points, constant overrides) is applied to overlay copies of the current /repo sources at build time (go test -tags verif -overlay <generated>); the harness and engine files added by the overlay carry //go:build verif; /repo itself only carries fix: commits",
        "baseline_off_cmd": cfg.get("baseline_off_cmd", "cd /repo && go test -mod=mod -vet=off -count=1 -timeout 25m ./..."),
        "source_commits": cfg.get("hook_commits", []),
        "add_only": True,
    },
    "engines": [
        {"name": "bubblesched", "path": "engine/vsched", "kind_free_text": "stateless deviation-bounded DFS over a controlled scheduler of real goroutines inside a testing/synctest bubble; sync/atomic shims as scheduling points (engine/shim), harness events and faults as choices",
         "serves_properties": [c["property_id"] for c in checks if c["engine"] == "bubblesched"]},
        {"name": "seqmc", "path": "engine/vsched (Report/Explore) + harness BFS", "kind_free_text": "explicit-state BFS / bounded-exhaustive enumeration of operation sequences, histories and input domains against reference models, executed on the real code",
         "serves_properties": [c["property_id"] for c in checks if c["engine"] == "seqmc"]},
    ],
    "checks": checks,
    "not_applicable": na,
    "notes": cfg.get("notes", ""),
}
json.dump(man, open(os.path.join(V, "MANIFEST.json"), "w"), indent=1)
print("MANIFEST: %d checks, %d not_applicable" % (len(checks), len(na)))

# merge known-findings fragments (development time only; checks never write this file)
import glob
kf = {"findings": [], "fixed": []}
for f in sorted(glob.glob(os.path.join(V, "known_findings.d", "*.json"))):
    d = json.load(open(f))
    kf["findings"] += d.get("findings", [])
    kf["fixed"] += d.get("fixed", [])
json.dump(kf, open(os.path.join(V, "known_findings.json"), "w"), indent=1)
print("known_findings: %d findings, %d fixed" % (len(kf["findings"]), len(kf["fixed"])))
