// Package vuatomic mirrors go.uber.org/atomic; every operation is a vsched scheduling point followed
// by the real operation.
package vuatomic

import (
	"time"

	uatomic "go.uber.org/atomic"

	"github.com/tochemey/goakt/v4/internal/verif/vsched"
)

func pt(op string) { vsched.PointSkip(op, 2, nil) }

type Int32 struct{ v uatomic.Int32 }

func NewInt32(val int32) *Int32          { x := &Int32{}; x.v.Store(val); return x }
func (x *Int32) Load() int32             { pt("uatomic.Load"); return x.v.Load() }
func (x *Int32) Store(val int32)         { pt("uatomic.Store"); x.v.Store(val) }
func (x *Int32) Swap(val int32) int32    { pt("uatomic.Swap"); return x.v.Swap(val) }
func (x *Int32) CAS(old, new int32) bool { pt("uatomic.CAS"); return x.v.CompareAndSwap(old, new) }
func (x *Int32) CompareAndSwap(old, new int32) bool {
	pt("uatomic.CAS")
	return x.v.CompareAndSwap(old, new)
}
func (x *Int32) Add(d int32) int32 { pt("uatomic.Add"); return x.v.Add(d) }
func (x *Int32) Sub(d int32) int32 { pt("uatomic.Sub"); return x.v.Sub(d) }
func (x *Int32) Inc() int32        { pt("uatomic.Inc"); return x.v.Inc() }
func (x *Int32) Dec() int32        { pt("uatomic.Dec"); return x.v.Dec() }
func (x *Int32) String() string    { return x.v.String() }

type Int64 struct{ v uatomic.Int64 }

func NewInt64(val int64) *Int64          { x := &Int64{}; x.v.Store(val); return x }
func (x *Int64) Load() int64             { pt("uatomic.Load"); return x.v.Load() }
func (x *Int64) Store(val int64)         { pt("uatomic.Store"); x.v.Store(val) }
func (x *Int64) Swap(val int64) int64    { pt("uatomic.Swap"); return x.v.Swap(val) }
func (x *Int64) CAS(old, new int64) bool { pt("uatomic.CAS"); return x.v.CompareAndSwap(old, new) }
func (x *Int64) CompareAndSwap(old, new int64) bool {
	pt("uatomic.CAS")
	return x.v.CompareAndSwap(old, new)
}
func (x *Int64) Add(d int64) int64 { pt("uatomic.Add"); return x.v.Add(d) }
func (x *Int64) Sub(d int64) int64 { pt("uatomic.Sub"); return x.v.Sub(d) }
func (x *Int64) Inc() int64        { pt("uatomic.Inc"); return x.v.Inc() }
func (x *Int64) Dec() int64        { pt("uatomic.Dec"); return x.v.Dec() }
func (x *Int64) String() string    { return x.v.String() }

type Uint32 struct{ v uatomic.Uint32 }

func NewUint32(val uint32) *Uint32         { x := &Uint32{}; x.v.Store(val); return x }
func (x *Uint32) Load() uint32             { pt("uatomic.Load"); return x.v.Load() }
func (x *Uint32) Store(val uint32)         { pt("uatomic.Store"); x.v.Store(val) }
func (x *Uint32) Swap(val uint32) uint32   { pt("uatomic.Swap"); return x.v.Swap(val) }
func (x *Uint32) CAS(old, new uint32) bool { pt("uatomic.CAS"); return x.v.CompareAndSwap(old, new) }
func (x *Uint32) CompareAndSwap(old, new uint32) bool {
	pt("uatomic.CAS")
	return x.v.CompareAndSwap(old, new)
}
func (x *Uint32) Add(d uint32) uint32 { pt("uatomic.Add"); return x.v.Add(d) }
func (x *Uint32) Sub(d uint32) uint32 { pt("uatomic.Sub"); return x.v.Sub(d) }
func (x *Uint32) Inc() uint32         { pt("uatomic.Inc"); return x.v.Inc() }
func (x *Uint32) Dec() uint32         { pt("uatomic.Dec"); return x.v.Dec() }
func (x *Uint32) String() string      { return x.v.String() }

type Uint64 struct{ v uatomic.Uint64 }

func NewUint64(val uint64) *Uint64         { x := &Uint64{}; x.v.Store(val); return x }
func (x *Uint64) Load() uint64             { pt("uatomic.Load"); return x.v.Load() }
func (x *Uint64) Store(val uint64)         { pt("uatomic.Store"); x.v.Store(val) }
func (x *Uint64) Swap(val uint64) uint64   { pt("uatomic.Swap"); return x.v.Swap(val) }
func (x *Uint64) CAS(old, new uint64) bool { pt("uatomic.CAS"); return x.v.CompareAndSwap(old, new) }
func (x *Uint64) CompareAndSwap(old, new uint64) bool {
	pt("uatomic.CAS")
	return x.v.CompareAndSwap(old, new)
}
func (x *Uint64) Add(d uint64) uint64 { pt("uatomic.Add"); return x.v.Add(d) }
func (x *Uint64) Sub(d uint64) uint64 { pt("uatomic.Sub"); return x.v.Sub(d) }
func (x *Uint64) Inc() uint64         { pt("uatomic.Inc"); return x.v.Inc() }
func (x *Uint64) Dec() uint64         { pt("uatomic.Dec"); return x.v.Dec() }
func (x *Uint64) String() string      { return x.v.String() }

type Bool struct{ v uatomic.Bool }

func NewBool(val bool) *Bool           { x := &Bool{}; x.v.Store(val); return x }
func (x *Bool) Load() bool             { pt("uatomic.Load"); return x.v.Load() }
func (x *Bool) Store(val bool)         { pt("uatomic.Store"); x.v.Store(val) }
func (x *Bool) Swap(val bool) bool     { pt("uatomic.Swap"); return x.v.Swap(val) }
func (x *Bool) CAS(old, new bool) bool { pt("uatomic.CAS"); return x.v.CompareAndSwap(old, new) }
func (x *Bool) CompareAndSwap(old, new bool) bool {
	pt("uatomic.CAS")
	return x.v.CompareAndSwap(old, new)
}
func (x *Bool) Toggle() bool   { pt("uatomic.Toggle"); return x.v.Toggle() }
func (x *Bool) String() string { return x.v.String() }

type Duration struct{ v uatomic.Duration }

func NewDuration(val time.Duration) *Duration            { x := &Duration{}; x.v.Store(val); return x }
func (x *Duration) Load() time.Duration                  { pt("uatomic.Load"); return x.v.Load() }
func (x *Duration) Store(val time.Duration)              { pt("uatomic.Store"); x.v.Store(val) }
func (x *Duration) Swap(val time.Duration) time.Duration { pt("uatomic.Swap"); return x.v.Swap(val) }
func (x *Duration) CAS(old, new time.Duration) bool {
	pt("uatomic.CAS")
	return x.v.CompareAndSwap(old, new)
}
func (x *Duration) CompareAndSwap(old, new time.Duration) bool {
	pt("uatomic.CAS")
	return x.v.CompareAndSwap(old, new)
}
func (x *Duration) Add(d time.Duration) time.Duration { pt("uatomic.Add"); return x.v.Add(d) }
func (x *Duration) Sub(d time.Duration) time.Duration { pt("uatomic.Sub"); return x.v.Sub(d) }

type Time struct{ v uatomic.Time }

func NewTime(val time.Time) *Time   { x := &Time{}; x.v.Store(val); return x }
func (x *Time) Load() time.Time     { pt("uatomic.Load"); return x.v.Load() }
func (x *Time) Store(val time.Time) { pt("uatomic.Store"); x.v.Store(val) }

type String struct{ v uatomic.String }

func NewString(val string) *String       { x := &String{}; x.v.Store(val); return x }
func (x *String) Load() string           { pt("uatomic.Load"); return x.v.Load() }
func (x *String) Store(val string)       { pt("uatomic.Store"); x.v.Store(val) }
func (x *String) Swap(val string) string { pt("uatomic.Swap"); return x.v.Swap(val) }
func (x *String) CompareAndSwap(old, new string) bool {
	pt("uatomic.CAS")
	return x.v.CompareAndSwap(old, new)
}

type Error struct{ v uatomic.Error }

func NewError(val error) *Error  { x := &Error{}; x.v.Store(val); return x }
func (x *Error) Load() error     { pt("uatomic.Load"); return x.v.Load() }
func (x *Error) Store(val error) { pt("uatomic.Store"); x.v.Store(val) }

type Pointer[T any] struct{ v uatomic.Pointer[T] }

func NewPointer[T any](val *T) *Pointer[T] { x := &Pointer[T]{}; x.v.Store(val); return x }
func (x *Pointer[T]) Load() *T             { pt("uatomic.Load"); return x.v.Load() }
func (x *Pointer[T]) Store(val *T)         { pt("uatomic.Store"); x.v.Store(val) }
func (x *Pointer[T]) Swap(val *T) *T       { pt("uatomic.Swap"); return x.v.Swap(val) }
func (x *Pointer[T]) CompareAndSwap(old, new *T) bool {
	pt("uatomic.CAS")
	return x.v.CompareAndSwap(old, new)
}

type Value struct{ v uatomic.Value }

func (x *Value) Load() any     { pt("uatomic.Load"); return x.v.Load() }
func (x *Value) Store(val any) { pt("uatomic.Store"); x.v.Store(val) }
