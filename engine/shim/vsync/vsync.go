// Package vsync is a drop-in replacement for the parts of package sync that goakt uses. Every
// operation is a scheduling point of the vsched controller; outside an exploration window the types
// behave like ordinary (slower) synchronisation primitives. All state lives under vsched.GMu so that
// the controller can evaluate "can this parked thread proceed?" without racing.
package vsync

import (
	"sync"

	"github.com/tochemey/goakt/v4/internal/verif/vsched"
)

// Locker is sync.Locker.
type Locker = sync.Locker

// Map is passed through (its internal interleavings are not explored); operations on it are points
// through the wrappers below.
type Map struct{ m sync.Map }

func (m *Map) Load(key any) (any, bool) { vsched.PointSkip("Map.Load", 1, nil); return m.m.Load(key) }
func (m *Map) Store(key, value any)     { vsched.PointSkip("Map.Store", 1, nil); m.m.Store(key, value) }
func (m *Map) LoadOrStore(key, value any) (any, bool) {
	vsched.PointSkip("Map.LoadOrStore", 1, nil)
	return m.m.LoadOrStore(key, value)
}
func (m *Map) LoadAndDelete(key any) (any, bool) {
	vsched.PointSkip("Map.LoadAndDelete", 1, nil)
	return m.m.LoadAndDelete(key)
}
func (m *Map) Delete(key any) { vsched.PointSkip("Map.Delete", 1, nil); m.m.Delete(key) }
func (m *Map) Swap(key, value any) (any, bool) {
	vsched.PointSkip("Map.Swap", 1, nil)
	return m.m.Swap(key, value)
}
func (m *Map) CompareAndSwap(key, old, new any) bool {
	vsched.PointSkip("Map.CompareAndSwap", 1, nil)
	return m.m.CompareAndSwap(key, old, new)
}
func (m *Map) CompareAndDelete(key, old any) bool {
	vsched.PointSkip("Map.CompareAndDelete", 1, nil)
	return m.m.CompareAndDelete(key, old)
}
func (m *Map) Range(f func(key, value any) bool) { vsched.PointSkip("Map.Range", 1, nil); m.m.Range(f) }
func (m *Map) Clear()                            { vsched.PointSkip("Map.Clear", 1, nil); m.m.Clear() }

// Mutex is a mutual exclusion lock whose Lock is enabled only when the lock is free.
type Mutex struct {
	held bool
}

func (m *Mutex) Lock() { m.lock(2) }

func (m *Mutex) lock(skip int) {
	vsched.PointSkip("Mutex.Lock", skip, func() bool { return !m.held })
	vsched.GMu.Lock()
	for m.held {
		vsched.GCond.Wait()
	}
	m.held = true
	vsched.GMu.Unlock()
}

func (m *Mutex) TryLock() bool {
	vsched.PointSkip("Mutex.TryLock", 1, nil)
	vsched.GMu.Lock()
	defer vsched.GMu.Unlock()
	if m.held {
		return false
	}
	m.held = true
	return true
}

func (m *Mutex) Unlock() { m.unlock(2) }

func (m *Mutex) unlock(skip int) {
	vsched.PointSkip("Mutex.Unlock", skip, nil)
	vsched.GMu.Lock()
	if !m.held {
		vsched.GMu.Unlock()
		panic("vsync: unlock of unlocked mutex")
	}
	m.held = false
	vsched.GCond.Broadcast()
	vsched.GMu.Unlock()
}

// RWMutex is a reader/writer lock (writer preference is not modelled: a writer is enabled when
// there is no holder, a reader when there is no writer holding).
type RWMutex struct {
	writer  bool
	readers int
}

func (m *RWMutex) Lock() {
	vsched.PointSkip("RWMutex.Lock", 1, func() bool { return !m.writer && m.readers == 0 })
	vsched.GMu.Lock()
	for m.writer || m.readers > 0 {
		vsched.GCond.Wait()
	}
	m.writer = true
	vsched.GMu.Unlock()
}

func (m *RWMutex) TryLock() bool {
	vsched.PointSkip("RWMutex.TryLock", 1, nil)
	vsched.GMu.Lock()
	defer vsched.GMu.Unlock()
	if m.writer || m.readers > 0 {
		return false
	}
	m.writer = true
	return true
}

func (m *RWMutex) Unlock() {
	vsched.PointSkip("RWMutex.Unlock", 1, nil)
	vsched.GMu.Lock()
	if !m.writer {
		vsched.GMu.Unlock()
		panic("vsync: Unlock of unlocked RWMutex")
	}
	m.writer = false
	vsched.GCond.Broadcast()
	vsched.GMu.Unlock()
}

func (m *RWMutex) RLock() {
	vsched.PointSkip("RWMutex.RLock", 1, func() bool { return !m.writer })
	vsched.GMu.Lock()
	for m.writer {
		vsched.GCond.Wait()
	}
	m.readers++
	vsched.GMu.Unlock()
}

func (m *RWMutex) TryRLock() bool {
	vsched.PointSkip("RWMutex.TryRLock", 1, nil)
	vsched.GMu.Lock()
	defer vsched.GMu.Unlock()
	if m.writer {
		return false
	}
	m.readers++
	return true
}

func (m *RWMutex) RUnlock() {
	vsched.PointSkip("RWMutex.RUnlock", 1, nil)
	vsched.GMu.Lock()
	if m.readers <= 0 {
		vsched.GMu.Unlock()
		panic("vsync: RUnlock of unlocked RWMutex")
	}
	m.readers--
	vsched.GCond.Broadcast()
	vsched.GMu.Unlock()
}

type rlocker RWMutex

func (r *rlocker) Lock()   { (*RWMutex)(r).RLock() }
func (r *rlocker) Unlock() { (*RWMutex)(r).RUnlock() }

func (m *RWMutex) RLocker() Locker { return (*rlocker)(m) }

// WaitGroup: Wait is enabled when the counter is zero.
type WaitGroup struct {
	n int
}

func (wg *WaitGroup) Add(delta int) {
	vsched.PointSkip("WaitGroup.Add", 1, nil)
	wg.add(delta)
}

func (wg *WaitGroup) add(delta int) {
	vsched.GMu.Lock()
	wg.n += delta
	if wg.n < 0 {
		vsched.GMu.Unlock()
		panic("vsync: negative WaitGroup counter")
	}
	if wg.n == 0 {
		vsched.GCond.Broadcast()
	}
	vsched.GMu.Unlock()
}

func (wg *WaitGroup) Done() {
	vsched.PointSkip("WaitGroup.Done", 1, nil)
	wg.add(-1)
}

func (wg *WaitGroup) Wait() {
	vsched.PointSkip("WaitGroup.Wait", 1, func() bool { return wg.n == 0 })
	vsched.GMu.Lock()
	for wg.n != 0 {
		vsched.GCond.Wait()
	}
	vsched.GMu.Unlock()
}

func (wg *WaitGroup) Go(f func()) {
	wg.add(1)
	go func() {
		defer wg.add(-1)
		f()
	}()
}

// Once runs f exactly once; concurrent callers wait for completion.
type Once struct {
	m    Mutex
	done bool
}

func (o *Once) Do(f func()) {
	vsched.PointSkip("Once.Do", 1, nil)
	vsched.GMu.Lock()
	d := o.done
	vsched.GMu.Unlock()
	if d {
		return
	}
	o.m.lock(2)
	defer o.m.unlock(2)
	vsched.GMu.Lock()
	d = o.done
	vsched.GMu.Unlock()
	if !d {
		defer func() {
			vsched.GMu.Lock()
			o.done = true
			vsched.GMu.Unlock()
		}()
		f()
	}
}

func OnceFunc(f func()) func()                                 { return sync.OnceFunc(f) }
func OnceValue[T any](f func() T) func() T                     { return sync.OnceValue(f) }
func OnceValues[T1, T2 any](f func() (T1, T2)) func() (T1, T2) { return sync.OnceValues(f) }

// Cond: FIFO wake-up like the runtime's notify list.
type Cond struct {
	L       Locker
	waiters []*condWaiter
}

type condWaiter struct{ signalled bool }

func NewCond(l Locker) *Cond { return &Cond{L: l} }

func (c *Cond) Wait() {
	w := &condWaiter{}
	vsched.GMu.Lock()
	c.waiters = append(c.waiters, w)
	vsched.GMu.Unlock()
	c.L.Unlock()
	vsched.PointSkip("Cond.Wait", 1, func() bool { return w.signalled })
	vsched.GMu.Lock()
	for !w.signalled {
		vsched.GCond.Wait()
	}
	vsched.GMu.Unlock()
	c.L.Lock()
}

func (c *Cond) Signal() {
	vsched.PointSkip("Cond.Signal", 1, nil)
	vsched.GMu.Lock()
	if len(c.waiters) > 0 {
		c.waiters[0].signalled = true
		c.waiters = c.waiters[1:]
		vsched.GCond.Broadcast()
	}
	vsched.GMu.Unlock()
}

func (c *Cond) Broadcast() {
	vsched.PointSkip("Cond.Broadcast", 1, nil)
	vsched.GMu.Lock()
	for _, w := range c.waiters {
		w.signalled = true
	}
	c.waiters = nil
	vsched.GCond.Broadcast()
	vsched.GMu.Unlock()
}

// Pool is a deterministic LIFO free list shared by all threads: the most adversarial reuse policy
// (an object put back is handed to the very next Get, whoever calls it).
type Pool struct {
	New   func() any
	items []any
}

// PoolLimit bounds how many objects a pool keeps (0 = unlimited).
var PoolLimit = 0

var allPools []*Pool

func (p *Pool) Get() any {
	vsched.PointSkip("Pool.Get", 1, nil)
	vsched.GMu.Lock()
	if n := len(p.items); n > 0 {
		x := p.items[n-1]
		p.items[n-1] = nil
		p.items = p.items[:n-1]
		vsched.GMu.Unlock()
		return x
	}
	vsched.GMu.Unlock()
	if p.New != nil {
		return p.New()
	}
	return nil
}

func (p *Pool) Put(x any) {
	vsched.PointSkip("Pool.Put", 1, nil)
	if x == nil {
		return
	}
	vsched.GMu.Lock()
	if len(p.items) == 0 && cap(p.items) == 0 {
		allPools = append(allPools, p)
	}
	if PoolLimit == 0 || len(p.items) < PoolLimit {
		p.items = append(p.items, x)
	}
	vsched.GMu.Unlock()
}

// ResetPools empties every pool that has ever been used (called between executions so that no
// object crosses from one execution into the next).
func ResetPools() {
	vsched.GMu.Lock()
	for _, p := range allPools {
		for i := range p.items {
			p.items[i] = nil
		}
		p.items = p.items[:0]
	}
	vsched.GMu.Unlock()
}
