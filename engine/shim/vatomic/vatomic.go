// Package vatomic mirrors sync/atomic; every operation is a vsched scheduling point followed by the
// real atomic operation.
package vatomic

import (
	"sync/atomic"
	"unsafe"

	"github.com/tochemey/goakt/v4/internal/verif/vsched"
)

func pt(op string) { vsched.PointSkip(op, 2, nil) }

func AddInt32(addr *int32, delta int32) int32 { pt("atomic.Add"); return atomic.AddInt32(addr, delta) }
func LoadInt32(addr *int32) int32             { pt("atomic.Load"); return atomic.LoadInt32(addr) }
func StoreInt32(addr *int32, val int32)       { pt("atomic.Store"); atomic.StoreInt32(addr, val) }
func SwapInt32(addr *int32, new int32) int32  { pt("atomic.Swap"); return atomic.SwapInt32(addr, new) }
func CompareAndSwapInt32(addr *int32, old, new int32) bool {
	pt("atomic.CAS")
	return atomic.CompareAndSwapInt32(addr, old, new)
}

type Int32 struct {
	_ noCopy
	v atomic.Int32
}

func (x *Int32) Load() int32          { pt("atomic.Load"); return x.v.Load() }
func (x *Int32) Store(val int32)      { pt("atomic.Store"); x.v.Store(val) }
func (x *Int32) Swap(new int32) int32 { pt("atomic.Swap"); return x.v.Swap(new) }
func (x *Int32) CompareAndSwap(old, new int32) bool {
	pt("atomic.CAS")
	return x.v.CompareAndSwap(old, new)
}
func (x *Int32) Add(delta int32) int32 { pt("atomic.Add"); return x.v.Add(delta) }
func (x *Int32) And(mask int32) int32  { pt("atomic.And"); return x.v.And(mask) }
func (x *Int32) Or(mask int32) int32   { pt("atomic.Or"); return x.v.Or(mask) }

func AddInt64(addr *int64, delta int64) int64 { pt("atomic.Add"); return atomic.AddInt64(addr, delta) }
func LoadInt64(addr *int64) int64             { pt("atomic.Load"); return atomic.LoadInt64(addr) }
func StoreInt64(addr *int64, val int64)       { pt("atomic.Store"); atomic.StoreInt64(addr, val) }
func SwapInt64(addr *int64, new int64) int64  { pt("atomic.Swap"); return atomic.SwapInt64(addr, new) }
func CompareAndSwapInt64(addr *int64, old, new int64) bool {
	pt("atomic.CAS")
	return atomic.CompareAndSwapInt64(addr, old, new)
}

type Int64 struct {
	_ noCopy
	v atomic.Int64
}

func (x *Int64) Load() int64          { pt("atomic.Load"); return x.v.Load() }
func (x *Int64) Store(val int64)      { pt("atomic.Store"); x.v.Store(val) }
func (x *Int64) Swap(new int64) int64 { pt("atomic.Swap"); return x.v.Swap(new) }
func (x *Int64) CompareAndSwap(old, new int64) bool {
	pt("atomic.CAS")
	return x.v.CompareAndSwap(old, new)
}
func (x *Int64) Add(delta int64) int64 { pt("atomic.Add"); return x.v.Add(delta) }
func (x *Int64) And(mask int64) int64  { pt("atomic.And"); return x.v.And(mask) }
func (x *Int64) Or(mask int64) int64   { pt("atomic.Or"); return x.v.Or(mask) }

func AddUint32(addr *uint32, delta uint32) uint32 {
	pt("atomic.Add")
	return atomic.AddUint32(addr, delta)
}
func LoadUint32(addr *uint32) uint32       { pt("atomic.Load"); return atomic.LoadUint32(addr) }
func StoreUint32(addr *uint32, val uint32) { pt("atomic.Store"); atomic.StoreUint32(addr, val) }
func SwapUint32(addr *uint32, new uint32) uint32 {
	pt("atomic.Swap")
	return atomic.SwapUint32(addr, new)
}
func CompareAndSwapUint32(addr *uint32, old, new uint32) bool {
	pt("atomic.CAS")
	return atomic.CompareAndSwapUint32(addr, old, new)
}

type Uint32 struct {
	_ noCopy
	v atomic.Uint32
}

func (x *Uint32) Load() uint32           { pt("atomic.Load"); return x.v.Load() }
func (x *Uint32) Store(val uint32)       { pt("atomic.Store"); x.v.Store(val) }
func (x *Uint32) Swap(new uint32) uint32 { pt("atomic.Swap"); return x.v.Swap(new) }
func (x *Uint32) CompareAndSwap(old, new uint32) bool {
	pt("atomic.CAS")
	return x.v.CompareAndSwap(old, new)
}
func (x *Uint32) Add(delta uint32) uint32 { pt("atomic.Add"); return x.v.Add(delta) }
func (x *Uint32) And(mask uint32) uint32  { pt("atomic.And"); return x.v.And(mask) }
func (x *Uint32) Or(mask uint32) uint32   { pt("atomic.Or"); return x.v.Or(mask) }

func AddUint64(addr *uint64, delta uint64) uint64 {
	pt("atomic.Add")
	return atomic.AddUint64(addr, delta)
}
func LoadUint64(addr *uint64) uint64       { pt("atomic.Load"); return atomic.LoadUint64(addr) }
func StoreUint64(addr *uint64, val uint64) { pt("atomic.Store"); atomic.StoreUint64(addr, val) }
func SwapUint64(addr *uint64, new uint64) uint64 {
	pt("atomic.Swap")
	return atomic.SwapUint64(addr, new)
}
func CompareAndSwapUint64(addr *uint64, old, new uint64) bool {
	pt("atomic.CAS")
	return atomic.CompareAndSwapUint64(addr, old, new)
}

type Uint64 struct {
	_ noCopy
	v atomic.Uint64
}

func (x *Uint64) Load() uint64           { pt("atomic.Load"); return x.v.Load() }
func (x *Uint64) Store(val uint64)       { pt("atomic.Store"); x.v.Store(val) }
func (x *Uint64) Swap(new uint64) uint64 { pt("atomic.Swap"); return x.v.Swap(new) }
func (x *Uint64) CompareAndSwap(old, new uint64) bool {
	pt("atomic.CAS")
	return x.v.CompareAndSwap(old, new)
}
func (x *Uint64) Add(delta uint64) uint64 { pt("atomic.Add"); return x.v.Add(delta) }
func (x *Uint64) And(mask uint64) uint64  { pt("atomic.And"); return x.v.And(mask) }
func (x *Uint64) Or(mask uint64) uint64   { pt("atomic.Or"); return x.v.Or(mask) }

func AddUintptr(addr *uintptr, delta uintptr) uintptr {
	pt("atomic.Add")
	return atomic.AddUintptr(addr, delta)
}
func LoadUintptr(addr *uintptr) uintptr       { pt("atomic.Load"); return atomic.LoadUintptr(addr) }
func StoreUintptr(addr *uintptr, val uintptr) { pt("atomic.Store"); atomic.StoreUintptr(addr, val) }
func SwapUintptr(addr *uintptr, new uintptr) uintptr {
	pt("atomic.Swap")
	return atomic.SwapUintptr(addr, new)
}
func CompareAndSwapUintptr(addr *uintptr, old, new uintptr) bool {
	pt("atomic.CAS")
	return atomic.CompareAndSwapUintptr(addr, old, new)
}

type Uintptr struct {
	_ noCopy
	v atomic.Uintptr
}

func (x *Uintptr) Load() uintptr            { pt("atomic.Load"); return x.v.Load() }
func (x *Uintptr) Store(val uintptr)        { pt("atomic.Store"); x.v.Store(val) }
func (x *Uintptr) Swap(new uintptr) uintptr { pt("atomic.Swap"); return x.v.Swap(new) }
func (x *Uintptr) CompareAndSwap(old, new uintptr) bool {
	pt("atomic.CAS")
	return x.v.CompareAndSwap(old, new)
}
func (x *Uintptr) Add(delta uintptr) uintptr { pt("atomic.Add"); return x.v.Add(delta) }

type noCopy struct{}

func (*noCopy) Lock()   {}
func (*noCopy) Unlock() {}

func LoadPointer(addr *unsafe.Pointer) unsafe.Pointer {
	pt("atomic.LoadPointer")
	return atomic.LoadPointer(addr)
}
func StorePointer(addr *unsafe.Pointer, val unsafe.Pointer) {
	pt("atomic.StorePointer")
	atomic.StorePointer(addr, val)
}
func SwapPointer(addr *unsafe.Pointer, new unsafe.Pointer) unsafe.Pointer {
	pt("atomic.SwapPointer")
	return atomic.SwapPointer(addr, new)
}
func CompareAndSwapPointer(addr *unsafe.Pointer, old, new unsafe.Pointer) bool {
	pt("atomic.CASPointer")
	return atomic.CompareAndSwapPointer(addr, old, new)
}

type Bool struct {
	_ noCopy
	v atomic.Bool
}

func (x *Bool) Load() bool         { pt("atomic.Load"); return x.v.Load() }
func (x *Bool) Store(val bool)     { pt("atomic.Store"); x.v.Store(val) }
func (x *Bool) Swap(new bool) bool { pt("atomic.Swap"); return x.v.Swap(new) }
func (x *Bool) CompareAndSwap(old, new bool) bool {
	pt("atomic.CAS")
	return x.v.CompareAndSwap(old, new)
}

type Pointer[T any] struct {
	_ noCopy
	v atomic.Pointer[T]
}

func (x *Pointer[T]) Load() *T       { pt("atomic.Load"); return x.v.Load() }
func (x *Pointer[T]) Store(val *T)   { pt("atomic.Store"); x.v.Store(val) }
func (x *Pointer[T]) Swap(new *T) *T { pt("atomic.Swap"); return x.v.Swap(new) }
func (x *Pointer[T]) CompareAndSwap(old, new *T) bool {
	pt("atomic.CAS")
	return x.v.CompareAndSwap(old, new)
}

type Value struct {
	v atomic.Value
}

func (x *Value) Load() any        { pt("atomic.Load"); return x.v.Load() }
func (x *Value) Store(val any)    { pt("atomic.Store"); x.v.Store(val) }
func (x *Value) Swap(new any) any { pt("atomic.Swap"); return x.v.Swap(new) }
func (x *Value) CompareAndSwap(old, new any) bool {
	pt("atomic.CAS")
	return x.v.CompareAndSwap(old, new)
}
