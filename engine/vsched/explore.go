package vsched

import (
	"encoding/json"
	"fmt"
	"hash/fnv"
	"os"
	"path/filepath"
	"sort"
	"strconv"
	"strings"
	"sync"
	"sync/atomic"
	"time"
)

// Violation is one oracle failure of one execution.
type Violation struct {
	Signature string `json:"signature"` // structural signature (used by known_findings.json)
	Detail    string `json:"detail"`
}

// Outcome is what one execution reports back to the explorer.
type Outcome struct {
	Obs        string      // observation vector; schedule dependent parts included on purpose
	Violations []Violation // empty = property held on this execution
	Invalid    string      // non-empty: the execution is not a verdict (wedge, truncated, ...)
}

// Config describes one scenario exploration.
type Config struct {
	Scenario   string
	Bound      int   // maximal deviation (preemption/fault) cost explored
	MaxExecs   int64 // cap for this scenario in this shard (0 = unlimited)
	SplitDepth int   // tree depth at which sub-trees are distributed over shards (default 2)
	Params     map[string]any
	// NoIterative explores the bound directly instead of 0,1,..,Bound.
	NoIterative bool
	// Deadline, when non-zero, caps this scenario's exploration (wall clock; hitting it yields
	// exhaustive:false, never a verdict).
	Deadline time.Time
}

// Scenario couples a configuration with its execution function.
type Scenario struct {
	Cfg Config
	Run func(c *Chooser) Outcome
}

// ExploreAll explores the scenarios in order, giving each an equal share of the remaining wall budget
// (time left over by a scenario that finishes early is inherited by the later ones).
func ExploreAll(scs []Scenario) {
	r := Rep()
	if f := os.Getenv("VERIF_SCENARIO_FILTER"); f != "" { // development aid: explore a subset only
		var keep []Scenario
		for _, sc := range scs {
			if strings.Contains(sc.Cfg.Scenario, f) {
				keep = append(keep, sc)
			}
		}
		scs = keep
		r.Note("VERIF_SCENARIO_FILTER=%s active: this run is partial", f)
	}
	for i, sc := range scs {
		left := time.Until(r.deadline)
		if left < 0 {
			left = 0
		}
		share := left / time.Duration(len(scs)-i)
		sc.Cfg.Deadline = time.Now().Add(share)
		Explore(sc.Cfg, sc.Run)
	}
}

// ScenarioStats is the per scenario result (one per shard; merged by the runner).
type ScenarioStats struct {
	Name           string           `json:"name"`
	Kind           string           `json:"kind"` // "schedules" | "states" | "inputs"
	Executions     int64            `json:"executions"`
	Decisions      int64            `json:"decisions"`
	MaxDecisions   int              `json:"max_decisions"`
	Bound          int              `json:"bound"`
	BoundCompleted int              `json:"bound_completed"`
	Capped         string           `json:"capped,omitempty"`
	Distinct       []uint64         `json:"distinct"`
	Nontrivial     []uint64         `json:"nontrivial"`
	States         int64            `json:"states,omitempty"`
	Transitions    int64            `json:"transitions,omitempty"`
	Samples        []map[string]any `json:"samples,omitempty"`
	Invalid        int64            `json:"invalid,omitempty"`
	InvalidReasons map[string]int64 `json:"invalid_reasons,omitempty"`
	Nondeterminism int64            `json:"nondeterminism,omitempty"`
	Threads        int              `json:"threads,omitempty"`
	Params         map[string]any   `json:"params,omitempty"`
	distinctSet    map[uint64]struct{}
	nontrivialSet  map[uint64]struct{}
}

// FoundViolation is a confirmed (replayed) violation.
type FoundViolation struct {
	Scenario  string `json:"scenario"`
	Signature string `json:"signature"`
	Detail    string `json:"detail"`
	Replay    string `json:"replay"`
	Cost      int    `json:"cost"`
}

// Report accumulates the results of one check process (one shard).
type Report struct {
	mu         sync.Mutex
	Property   string           `json:"property"`
	Tier       string           `json:"tier"`
	Shard      int              `json:"shard"`
	NShards    int              `json:"nshards"`
	Scenarios  []*ScenarioStats `json:"scenarios"`
	Violations []FoundViolation `json:"violations"`
	Notes      []string         `json:"notes,omitempty"`
	Assume     []string         `json:"assumptions,omitempty"`
	WallS      float64          `json:"wall_s"`
	Hang       string           `json:"hang,omitempty"`
	start      time.Time
	deadline   time.Time
	outPath    string
	replayDir  string
	replayFile string
	sigSeen    map[string]bool
	divNotes   int
	expired    atomic.Bool
}

var (
	repOnce sync.Once
	rep     *Report
)

// Rep returns the process-wide report, configured from the environment:
// VERIF_PROPERTY, VERIF_TIER, VERIF_SHARD=i/N, VERIF_OUT (result file), VERIF_REPLAY_DIR,
// VERIF_REPLAY (file to replay), VERIF_BUDGET_S (wall budget for exploration in this process).
func Rep() *Report {
	repOnce.Do(func() {
		r := &Report{start: time.Now(), sigSeen: map[string]bool{}}
		r.Property = os.Getenv("VERIF_PROPERTY")
		r.Tier = os.Getenv("VERIF_TIER")
		if r.Tier == "" {
			r.Tier = "quick"
		}
		r.NShards = 1
		if s := os.Getenv("VERIF_SHARD"); s != "" {
			parts := strings.Split(s, "/")
			if len(parts) == 2 {
				r.Shard, _ = strconv.Atoi(parts[0])
				r.NShards, _ = strconv.Atoi(parts[1])
				if r.NShards < 1 {
					r.NShards = 1
				}
			}
		}
		budget := 3600.0
		if s := os.Getenv("VERIF_BUDGET_S"); s != "" {
			if f, err := strconv.ParseFloat(s, 64); err == nil {
				budget = f
			}
		}
		r.deadline = r.start.Add(time.Duration(budget * float64(time.Second)))
		r.outPath = os.Getenv("VERIF_OUT")
		r.replayDir = os.Getenv("VERIF_REPLAY_DIR")
		r.replayFile = os.Getenv("VERIF_REPLAY")
		// The budget is enforced by a real-time timer started here, outside any bubble: inside a
		// synctest bubble time.Now() is virtual and would never reach the deadline.
		time.AfterFunc(time.Until(r.deadline), func() { r.expired.Store(true) })
		rep = r
	})
	return rep
}

// Thorough reports whether the thorough tier was requested.
func (r *Report) Thorough() bool { return r.Tier == "thorough" }

// Pick returns q for the quick tier and t for the thorough tier.
func Pick[T any](q, t T) T {
	if Rep().Thorough() {
		return t
	}
	return q
}

// Note adds a free-text note to the evidence.
func (r *Report) Note(format string, a ...any) {
	r.mu.Lock()
	r.Notes = append(r.Notes, fmt.Sprintf(format, a...))
	r.mu.Unlock()
}

// Assumption records an assumption / trusted base entry.
func (r *Report) Assumption(s string) {
	r.mu.Lock()
	for _, a := range r.Assume {
		if a == s {
			r.mu.Unlock()
			return
		}
	}
	r.Assume = append(r.Assume, s)
	r.mu.Unlock()
}

// TimeLeft reports whether the wall budget still allows more work.
func (r *Report) TimeLeft() bool { return !r.expired.Load() }

// Flush writes the shard result file.
func (r *Report) Flush() {
	r.mu.Lock()
	defer r.mu.Unlock()
	r.WallS = time.Since(r.start).Seconds()
	for _, s := range r.Scenarios {
		s.finish()
	}
	if r.outPath == "" {
		return
	}
	b, err := json.Marshal(r)
	if err != nil {
		panic(err)
	}
	tmp := r.outPath + ".tmp"
	if err := os.WriteFile(tmp, b, 0o644); err != nil {
		panic(err)
	}
	_ = os.Rename(tmp, r.outPath)
}

func (s *ScenarioStats) finish() {
	const capSet = 50000
	s.Distinct = s.Distinct[:0]
	for h := range s.distinctSet {
		s.Distinct = append(s.Distinct, h)
	}
	s.Nontrivial = s.Nontrivial[:0]
	for h := range s.nontrivialSet {
		s.Nontrivial = append(s.Nontrivial, h)
	}
	sort.Slice(s.Distinct, func(i, j int) bool { return s.Distinct[i] < s.Distinct[j] })
	sort.Slice(s.Nontrivial, func(i, j int) bool { return s.Nontrivial[i] < s.Nontrivial[j] })
	// keep the smallest hashes (deterministic) when the sets are too large to ship
	if len(s.Distinct) > capSet {
		s.Distinct = s.Distinct[:capSet]
	}
	if len(s.Nontrivial) > capSet {
		s.Nontrivial = s.Nontrivial[:capSet]
	}
}

// NewScenario registers a scenario stats block (used directly by Engine Q harnesses).
func (r *Report) NewScenario(name, kind string) *ScenarioStats {
	s := &ScenarioStats{Name: name, Kind: kind, distinctSet: map[uint64]struct{}{}, nontrivialSet: map[uint64]struct{}{}, InvalidReasons: map[string]int64{}}
	r.mu.Lock()
	r.Scenarios = append(r.Scenarios, s)
	r.mu.Unlock()
	return s
}

// Hash64 hashes an observation string.
func Hash64(s string) uint64 {
	h := fnv.New64a()
	h.Write([]byte(s))
	return h.Sum64()
}

// Observe records one evaluated case: obs is its observation vector, nontrivial says whether the
// case is non-trivial by the scenario's rule.
func (s *ScenarioStats) Observe(obs string, nontrivial bool) {
	h := Hash64(obs)
	s.distinctSet[h] = struct{}{}
	if nontrivial {
		s.nontrivialSet[h] = struct{}{}
	}
}

// Sample records a written-out case (bounded number kept).
func (s *ScenarioStats) Sample(m map[string]any) {
	if len(s.Samples) < 4 {
		s.Samples = append(s.Samples, m)
	}
}

// OwnsIndex tells whether work item i belongs to this shard (round-robin distribution).
func (r *Report) OwnsIndex(i int64) bool {
	return int(i%int64(r.NShards)) == r.Shard
}

// ReportViolation records a violation found by an Engine Q harness (no schedule; the replay file
// contains the failing case written out). Returns true if it is new for this process.
func (r *Report) ReportViolation(scenario string, v Violation, replayCase any) bool {
	r.mu.Lock()
	defer r.mu.Unlock()
	key := scenario + "|" + v.Signature
	if r.sigSeen[key] {
		return false
	}
	r.sigSeen[key] = true
	path := r.writeReplay(scenario, v, nil, replayCase, nil)
	r.Violations = append(r.Violations, FoundViolation{Scenario: scenario, Signature: v.Signature, Detail: v.Detail, Replay: path})
	return true
}

func (r *Report) writeReplay(scenario string, v Violation, choices []int, theCase any, trace []Decision) string {
	if r.replayDir == "" {
		return ""
	}
	_ = os.MkdirAll(r.replayDir, 0o755)
	name := fmt.Sprintf("%s_%016x.json", sanitize(scenario), Hash64(v.Signature))
	path := filepath.Join(r.replayDir, name)
	type td struct {
		I      int    `json:"i"`
		Kind   string `json:"kind"`
		N      int    `json:"n"`
		Chosen int    `json:"chosen"`
		Label  string `json:"label,omitempty"`
	}
	var tds []td
	for i, d := range trace {
		tds = append(tds, td{i, d.Kind, d.N, d.Chosen, d.Label})
	}
	m := map[string]any{
		"property":  r.Property,
		"scenario":  scenario,
		"signature": v.Signature,
		"detail":    v.Detail,
		"choices":   choices,
		"case":      theCase,
		"trace":     tds,
		"tier":      r.Tier,
	}
	b, _ := json.MarshalIndent(m, "", " ")
	_ = os.WriteFile(path, b, 0o644)
	return path
}

func sanitize(s string) string {
	var b strings.Builder
	for _, c := range s {
		if (c >= 'a' && c <= 'z') || (c >= 'A' && c <= 'Z') || (c >= '0' && c <= '9') || c == '-' || c == '_' || c == '.' {
			b.WriteRune(c)
		} else {
			b.WriteByte('_')
		}
	}
	if b.Len() > 80 {
		return b.String()[:80]
	}
	return b.String()
}

// replayRequest returns the scenario and choices of VERIF_REPLAY, if set.
func (r *Report) replayRequest() (string, []int, bool) {
	if r.replayFile == "" {
		return "", nil, false
	}
	b, err := os.ReadFile(r.replayFile)
	if err != nil {
		panic(err)
	}
	var m struct {
		Scenario string `json:"scenario"`
		Choices  []int  `json:"choices"`
	}
	if err := json.Unmarshal(b, &m); err != nil {
		panic(err)
	}
	return m.Scenario, m.Choices, true
}

// ReplayScenario returns the scenario name requested for replay ("" if none).
func (r *Report) ReplayScenario() string {
	s, _, ok := r.replayRequest()
	if !ok {
		return ""
	}
	return s
}

type workItem struct {
	prefix []int
	depth  int // tree depth (number of branchings from the root execution)
}

// Explore enumerates all executions of run whose deviation cost is <= cfg.Bound
// (iteratively 0,1,..,Bound), depth first, stateless. run must be a deterministic function of the
// chooser's choice sequence.
func Explore(cfg Config, run func(c *Chooser) Outcome) *ScenarioStats {
	r := Rep()
	st := r.NewScenario(cfg.Scenario, "schedules")
	st.Bound = cfg.Bound
	st.BoundCompleted = -1
	st.Params = cfg.Params
	if cfg.SplitDepth == 0 {
		cfg.SplitDepth = 2
	}

	// replay mode
	if scen, choices, ok := r.replayRequest(); ok {
		if scen != cfg.Scenario {
			st.Capped = "skipped (replay of another scenario)"
			return st
		}
		c := NewChooser(choices)
		out := safeRun(run, c)
		fmt.Printf("REPLAY scenario=%s decisions=%d cost=%d\n", cfg.Scenario, len(c.Trace), c.Cost())
		for i, d := range c.Trace {
			fmt.Printf("  #%d %-6s n=%d chosen=%d %s\n", i, d.Kind, d.N, d.Chosen, d.Label)
		}
		fmt.Printf("  obs: %s\n", out.Obs)
		if out.Invalid != "" {
			fmt.Printf("  invalid: %s\n", out.Invalid)
		}
		for _, v := range out.Violations {
			fmt.Printf("  VIOLATION-REPLAYED signature=%s\n    %s\n", v.Signature, v.Detail)
			r.mu.Lock()
			r.Violations = append(r.Violations, FoundViolation{Scenario: cfg.Scenario, Signature: v.Signature, Detail: v.Detail, Replay: r.replayFile, Cost: c.Cost()})
			r.mu.Unlock()
		}
		st.Executions = 1
		return st
	}

	// determinism audit: the root execution twice.
	{
		c1 := NewChooser(nil)
		o1 := safeRun(run, c1)
		c2 := NewChooser(c1.Choices())
		o2 := safeRun(run, c2)
		if o1.Obs != o2.Obs || len(c1.Trace) != len(c2.Trace) || o1.Invalid != o2.Invalid {
			st.Nondeterminism++
			st.Capped = "NONDETERMINISM in determinism audit of the root execution"
			r.Note("scenario %s: NONDETERMINISM audit failed: obs1=%q obs2=%q len1=%d len2=%d inv1=%q inv2=%q", cfg.Scenario, trunc(o1.Obs, 300), trunc(o2.Obs, 300), len(c1.Trace), len(c2.Trace), o1.Invalid, o2.Invalid)
			return st
		}
	}

	bounds := []int{}
	if cfg.NoIterative {
		bounds = append(bounds, cfg.Bound)
	} else {
		for b := 0; b <= cfg.Bound; b++ {
			bounds = append(bounds, b)
		}
	}
	var splitCounter int64
	for _, b := range bounds {
		completed := true
		stack := []workItem{{prefix: nil, depth: 0}}
		splitCounter = 0
		for len(stack) > 0 {
			if !r.TimeLeft() || (!cfg.Deadline.IsZero() && time.Now().After(cfg.Deadline)) {
				st.Capped = fmt.Sprintf("wall budget reached while exploring bound %d", b)
				completed = false
				break
			}
			if cfg.MaxExecs > 0 && st.Executions >= cfg.MaxExecs {
				st.Capped = fmt.Sprintf("execution cap %d reached while exploring bound %d", cfg.MaxExecs, b)
				completed = false
				break
			}
			it := stack[len(stack)-1]
			stack = stack[:len(stack)-1]

			c := NewChooser(it.prefix)
			out := safeRun(run, c)
			cost := c.Cost()
			// Count/check only executions of exactly this bound (lower ones were covered by the
			// previous iteration), and count shared (pre-split) nodes only in shard 0.
			countIt := (cfg.NoIterative || cost == b) && (it.depth >= cfg.SplitDepth || r.Shard == 0)
			if countIt {
				st.Executions++
				st.Decisions += int64(len(c.Trace))
				if len(c.Trace) > st.MaxDecisions {
					st.MaxDecisions = len(c.Trace)
				}
				if out.Invalid != "" {
					st.Invalid++
					st.InvalidReasons[trunc(out.Invalid, 80)]++
				} else {
					st.Observe(out.Obs, c.NonDefault() > 0)
					if len(st.Samples) < 2 || (len(st.Samples) < 4 && c.NonDefault() > 0) {
						st.Sample(map[string]any{"choices": c.Choices(), "cost": cost, "obs": trunc(out.Obs, 400), "schedule": scheduleLabels(c, 40)})
					}
					for _, v := range out.Violations {
						r.confirmAndRecord(cfg, run, c, v, st)
					}
				}
			}
			if c.Truncated {
				st.Capped = "decision horizon reached in some execution"
			}
			// expand alternatives after the prefix
			for i := len(c.Trace) - 1; i >= len(it.prefix); i-- {
				d := c.Trace[i]
				for alt := d.N - 1; alt >= 1; alt-- {
					if d.Before+d.Costs[alt] > b {
						continue
					}
					childDepth := it.depth + 1
					if childDepth == cfg.SplitDepth {
						idx := splitCounter
						splitCounter++
						if !r.OwnsIndex(idx) {
							continue
						}
					}
					np := make([]int, i+1)
					for k := 0; k < i; k++ {
						np[k] = c.Trace[k].Chosen
					}
					np[i] = alt
					stack = append(stack, workItem{prefix: np, depth: childDepth})
				}
			}
		}
		if completed {
			st.BoundCompleted = b
		} else {
			break
		}
	}
	return st
}

func scheduleLabels(c *Chooser, max int) []string {
	var out []string
	for i, d := range c.Trace {
		if i >= max {
			out = append(out, "...")
			break
		}
		out = append(out, d.Label)
	}
	return out
}

func trunc(s string, n int) string {
	if len(s) <= n {
		return s
	}
	return s[:n] + "..."
}

// confirmAndRecord replays the full choice sequence once more; only a violation that reproduces with
// the same signature is recorded.
func (r *Report) confirmAndRecord(cfg Config, run func(c *Chooser) Outcome, c *Chooser, v Violation, st *ScenarioStats) {
	key := cfg.Scenario + "|" + v.Signature
	r.mu.Lock()
	seen := r.sigSeen[key]
	r.mu.Unlock()
	if seen {
		return
	}
	c2 := NewChooser(c.Choices())
	out2 := safeRun(run, c2)
	reproduced := false
	for _, v2 := range out2.Violations {
		if v2.Signature == v.Signature {
			reproduced = true
		}
	}
	if !reproduced {
		st.Nondeterminism++
		r.Note("scenario %s: violation %q did not reproduce on immediate replay (treated as nondeterminism, not reported)", cfg.Scenario, v.Signature)
		return
	}
	r.mu.Lock()
	r.sigSeen[key] = true
	path := r.writeReplay(cfg.Scenario, v, c.Choices(), cfg.Params, c.Trace)
	r.Violations = append(r.Violations, FoundViolation{Scenario: cfg.Scenario, Signature: v.Signature, Detail: v.Detail, Replay: path, Cost: c.Cost()})
	r.mu.Unlock()
}

// safeRun executes run and converts divergence/harness panics into an invalid outcome.
func safeRun(run func(c *Chooser) Outcome, c *Chooser) (out Outcome) {
	defer func() {
		if p := recover(); p != nil {
			if d, ok := p.(Divergence); ok {
				out = Outcome{Invalid: d.Error()}
				r := Rep()
				r.mu.Lock()
				if r.divNotes < 3 {
					r.divNotes++
					r.Notes = append(r.Notes, "divergence while replaying a prefix (execution discarded): "+d.Msg)
				}
				r.mu.Unlock()
				return
			}
			panic(p)
		}
	}()
	return run(c)
}
