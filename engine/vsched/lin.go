package vsched

import (
	"fmt"
	"strings"
)

// LinOp is one completed operation of a concurrent history on a FIFO queue of ints.
type LinOp struct {
	Thread string
	Enq    bool // true: Enqueue(Val); false: Dequeue() returned Val (Nil=true when it returned "empty")
	Val    int
	Nil    bool
	Call   int // logical time stamps: Call < Ret; ops overlap when their intervals intersect
	Ret    int
}

func (o LinOp) String() string {
	if o.Enq {
		return fmt.Sprintf("[%d,%d] %s enq(%d)", o.Call, o.Ret, o.Thread, o.Val)
	}
	if o.Nil {
		return fmt.Sprintf("[%d,%d] %s deq()=nil", o.Call, o.Ret, o.Thread)
	}
	return fmt.Sprintf("[%d,%d] %s deq()=%d", o.Call, o.Ret, o.Thread, o.Val)
}

// ShowOps renders a history.
func ShowOps(ops []LinOp) string {
	var b strings.Builder
	for _, o := range ops {
		b.WriteString("  " + o.String() + "\n")
	}
	return b.String()
}

// LinearizableFIFO performs a Wing–Gong search (memoised on done-set and queue content) for a
// linearization of ops against the sequential FIFO queue specification. excuseNil relaxes the
// specification: a Dequeue that returned nil is accepted at any point if some Enqueue overlapped it.
func LinearizableFIFO(ops []LinOp, excuseNil bool) bool {
	n := len(ops)
	if n > 30 {
		panic("history too long")
	}
	excused := make([]bool, n)
	if excuseNil {
		for i, o := range ops {
			if o.Enq || !o.Nil {
				continue
			}
			for _, e := range ops {
				if e.Enq && e.Call < o.Ret && o.Call < e.Ret {
					excused[i] = true
				}
			}
		}
	}
	memo := map[string]bool{}
	var rec func(done uint32, q []int) bool
	rec = func(done uint32, q []int) bool {
		if done == (1<<uint(n))-1 {
			return true
		}
		key := fmt.Sprint(done, q)
		if memo[key] {
			return false
		}
		minRet := 1 << 30
		for i, o := range ops {
			if done&(1<<uint(i)) == 0 && o.Ret < minRet {
				minRet = o.Ret
			}
		}
		for i, o := range ops {
			if done&(1<<uint(i)) != 0 || o.Call > minRet {
				continue
			}
			var nq []int
			ok := false
			switch {
			case o.Enq:
				nq = append(append([]int{}, q...), o.Val)
				ok = true
			case o.Nil:
				if len(q) == 0 || excused[i] {
					nq, ok = q, true
				}
			default:
				if len(q) > 0 && q[0] == o.Val {
					nq, ok = append([]int{}, q[1:]...), true
				}
			}
			if ok && rec(done|(1<<uint(i)), nq) {
				return true
			}
		}
		memo[key] = true
		return false
	}
	return rec(0, nil)
}
