package vsched

import (
	"fmt"
	"testing"
)

func sprintf(f string, a ...any) string { return fmt.Sprintf(f, a...) }

// Finish writes the shard result; a harness test calls it last (deferred).
func Finish(t *testing.T) {
	Rep().Flush()
}

// Fail is a convenience for building a violation.
func Fail(sig, format string, a ...any) Violation {
	return Violation{Signature: sig, Detail: sprintf(format, a...)}
}

// Settle waits until every goroutine of the current bubble is durably blocked.
func Settle() { settle() }

// ChanPoint is the scheduling point the instrumenter inserts before channel statements
// (send, receive, select) of files listed under "chan_points" of a variant.
func ChanPoint() { PointSkip("chan", 1, nil) }
