package vsched

import (
	"fmt"
	"os"
	"runtime"
	"sort"
	"strings"
	"sync"
	"sync/atomic"
	"testing"
	"testing/synctest"
	"time"
)

// G is the global lock/condition that the shim primitives (vsync) use for their own state. A single
// lock keeps predicates of parked threads evaluable by the controller without races.
var (
	GMu   sync.Mutex
	GCond = sync.NewCond(&GMu)
)

// HangAfter is the wall-clock limit of a single execution (see Bubble).
var HangAfter = 90 * time.Second

// cur is the scheduler whose window is currently open (nil = every point passes straight through).
var cur atomic.Pointer[Sched]

type thread struct {
	id      int
	name    string
	goid    uint64
	gate    chan struct{}
	parked  bool
	op      string
	pred    func() bool // nil = always enabled; evaluated under GMu
	yield   bool
	done    bool
	harness bool // spawned via Go(): must finish for the execution to be complete
	steps   int
}

// Sched is the controlled scheduler of one execution. It must be created and used inside a
// synctest bubble; the bubble's root goroutine is the controller.
type Sched struct {
	mu           sync.Mutex
	c            *Chooser
	threads      []*thread
	byGoid       map[uint64]*thread
	running      *thread
	Auto         bool                       // auto-register unknown goroutines that hit a point
	Scope        func(file, fn string) bool // nil = every shimmed site is a point
	OnDecide     func()                     // invariant hook, called at every decision with all threads stopped
	Events       func() []Event             // harness events enabled at this decision (may be nil)
	MaxSteps     int                        // decision horizon for this execution
	YieldCap     int                        // consecutive yield-only decisions before livelock
	Deadlock     bool                       // set when no thread/event was enabled but harness threads were unfinished
	Livelock     bool                       // set when only yielding threads were enabled for YieldCap decisions
	Wedged       string                     // non-empty when the execution could not be driven
	Blocked      []string                   // description of blocked threads at deadlock
	Log          []string                   // optional decision log
	ThreadPanics []string                   // panics raised inside controlled threads (harnesses report them)
	scopeMemo    sync.Map                   // pc -> bool
	// TimeStep > 0: when no thread and no event is enabled but harness threads are unfinished, the
	// controller lets virtual time pass in steps of TimeStep (at most MaxIdleSteps in a row) before
	// declaring a deadlock. Modelling assumption: timers fire only when nothing else can run.
	// FairAfter > 0: a thread that has taken FairAfter consecutive decisions while other threads were
	// enabled is treated as yielding (it is busy-waiting on somebody else's progress): switching away
	// from it is free and it becomes the last choice. Keeps un-yielding spin loops finite.
	FairAfter    int
	consec       int
	TimeStep     time.Duration
	MaxIdleSteps int
	idleSteps    int
	yieldRun     int
	nextID       int
	cleanups     []func()
}

// last is the most recently created scheduler (used to unwind after a panic in the controller).
var last atomic.Pointer[Sched]

// Cleanup registers f to run when the execution is abandoned because the controller panicked
// (e.g. on a replay divergence): it must unblock whatever the harness left blocked.
func (s *Sched) Cleanup(f func()) { s.cleanups = append(s.cleanups, f) }

// Event is a harness-level transition offered to the explorer besides thread steps.
type Event struct {
	Name string
	Cost int // deviation cost (faults etc.); 0 for ordinary events
	Fire func()
}

// New creates a scheduler bound to chooser c.
func New(c *Chooser) *Sched {
	s := &Sched{c: c, byGoid: map[uint64]*thread{}, MaxSteps: 20000, YieldCap: 12}
	last.Store(s)
	return s
}

// Chooser returns the execution's chooser (for harness level choices).
func (s *Sched) Chooser() *Chooser { return s.c }

func goid() uint64 {
	var buf [64]byte
	n := runtime.Stack(buf[:], false)
	// "goroutine 123 ["
	var id uint64
	for i := len("goroutine "); i < n; i++ {
		ch := buf[i]
		if ch < '0' || ch > '9' {
			break
		}
		id = id*10 + uint64(ch-'0')
	}
	return id
}

// Go starts fn as a logical harness thread. It runs freely until the window is opened (Start), after
// which it stops at every point. Threads started by Go must finish for the execution to be complete.
func (s *Sched) Go(name string, fn func()) { s.spawn(name, fn, true) }

// GoDaemon starts a controlled thread that need not finish (e.g. a worker loop that parks forever).
func (s *Sched) GoDaemon(name string, fn func()) { s.spawn(name, fn, false) }

func (s *Sched) spawn(name string, fn func(), harness bool) {
	t := &thread{name: name, gate: make(chan struct{}), harness: harness}
	s.mu.Lock()
	t.id = s.nextID
	s.nextID++
	s.threads = append(s.threads, t)
	s.mu.Unlock()
	ready := make(chan struct{})
	go func() {
		t.goid = goid()
		s.mu.Lock()
		s.byGoid[t.goid] = t
		s.mu.Unlock()
		close(ready)
		// every harness thread starts parked at an initial point so that the order in which
		// threads begin is a scheduling decision as well.
		s.park(t, "start", nil, false)
		defer func() {
			// a panic of a controlled thread (raised by the code under test) is recorded, not fatal
			if p := recover(); p != nil {
				buf := make([]byte, 4096)
				n := runtime.Stack(buf, false)
				s.mu.Lock()
				s.ThreadPanics = append(s.ThreadPanics, fmt.Sprintf("thread %s: %v\n%s", t.name, p, buf[:n]))
				s.mu.Unlock()
			}
			s.mu.Lock()
			t.done = true
			s.mu.Unlock()
		}()
		fn()
	}()
	<-ready
}

// Adopt registers the calling goroutine as a (non-harness) logical thread.
func (s *Sched) Adopt(name string) {
	s.mu.Lock()
	s.register(name, false)
	s.mu.Unlock()
}

func (s *Sched) register(name string, harness bool) *thread {
	t := &thread{name: name, gate: make(chan struct{}), harness: harness, goid: goid()}
	t.id = s.nextID
	s.nextID++
	s.threads = append(s.threads, t)
	s.byGoid[t.goid] = t
	return t
}

func (s *Sched) park(t *thread, op string, pred func() bool, yield bool) {
	s.mu.Lock()
	t.op, t.pred, t.yield, t.parked = op, pred, yield, true
	s.mu.Unlock()
	<-t.gate
}

// inScope resolves the call site skip frames above the caller of Point.
func (s *Sched) inScope(skip int) bool {
	if s.Scope == nil {
		return true
	}
	var pcs [1]uintptr
	if runtime.Callers(skip+2, pcs[:]) == 0 {
		return true
	}
	if v, ok := s.scopeMemo.Load(pcs[0]); ok {
		return v.(bool)
	}
	fr, _ := runtime.CallersFrames(pcs[:]).Next()
	ok := s.Scope(fr.File, fr.Function)
	s.scopeMemo.Store(pcs[0], ok)
	return ok
}

// Active reports whether an exploration window is open.
func Active() bool { return cur.Load() != nil }

// PointSkip is the scheduling point used by the shims: skip is the number of frames between the
// shim function and the instrumented call site (1 = the caller of the function calling PointSkip).
// It returns true when the calling goroutine is a controlled thread and was parked+released
// (pred, if any, was true when released and nothing else ran in between).
func PointSkip(op string, skip int, pred func() bool) bool {
	s := cur.Load()
	if s == nil {
		return false
	}
	return s.point(op, skip+1, pred, false)
}

// Point is an explicit scheduling point (harness code).
func Point(op string) {
	s := cur.Load()
	if s == nil {
		return
	}
	s.point(op, -1000, nil, false)
}

// Yield is a fair yield: the calling thread becomes the lowest-priority choice. Instrumented code
// reaches it through runtime.Gosched(); outside a window it is runtime.Gosched().
func Yield() {
	s := cur.Load()
	if s == nil {
		runtime.Gosched()
		return
	}
	if !s.point("yield", 1, nil, true) {
		runtime.Gosched()
	}
}

func (s *Sched) point(op string, skip int, pred func() bool, yield bool) bool {
	g := goid()
	s.mu.Lock()
	t := s.byGoid[g]
	if t == nil {
		if !s.Auto {
			s.mu.Unlock()
			return false
		}
		t = s.register(fmt.Sprintf("auto%d", s.nextID), false)
	}
	s.mu.Unlock()
	if !yield && skip >= 0 && !s.inScope(skip+1) {
		return false
	}
	s.park(t, op, pred, yield)
	return true
}

// Start opens the exploration window: from now on points park.
func (s *Sched) Start() {
	synctest.Wait()
	cur.Store(s)
}

// Stop closes the window and releases every parked thread so that teardown can run freely.
func (s *Sched) Stop() {
	cur.Store(nil)
	s.mu.Lock()
	var parked []*thread
	for _, t := range s.threads {
		if t.parked {
			t.parked = false
			parked = append(parked, t)
		}
	}
	s.mu.Unlock()
	for _, t := range parked {
		t.gate <- struct{}{}
	}
	GMu.Lock()
	GCond.Broadcast()
	GMu.Unlock()
}

// AllDone reports whether every harness thread has finished.
func (s *Sched) AllDone() bool {
	s.mu.Lock()
	defer s.mu.Unlock()
	for _, t := range s.threads {
		if t.harness && !t.done {
			return false
		}
	}
	return true
}

// Run drives the execution until every harness thread has finished and nothing is enabled, or a
// deadlock/livelock/horizon is detected. It returns the number of decisions taken.
func (s *Sched) Run() int {
	return s.RunUntil(nil)
}

// RunUntil is Run with an additional stop condition evaluated at every decision.
func (s *Sched) RunUntil(stop func() bool) int {
	steps := 0
	for {
		synctest.Wait()
		if s.OnDecide != nil {
			s.OnDecide()
		}
		if stop != nil && stop() {
			return steps
		}
		s.mu.Lock()
		var enabled []*thread
		var blocked []*thread
		for _, t := range s.threads {
			if !t.parked || t.done {
				continue
			}
			ok := true
			if t.pred != nil {
				GMu.Lock()
				ok = t.pred()
				GMu.Unlock()
			}
			if ok {
				enabled = append(enabled, t)
			} else {
				blocked = append(blocked, t)
			}
		}
		run := s.running
		s.mu.Unlock()

		var events []Event
		if s.Events != nil {
			events = s.Events()
		}

		if len(enabled) == 0 && len(events) == 0 && !s.AllDone() && s.TimeStep > 0 && s.idleSteps < s.MaxIdleSteps {
			s.idleSteps++
			time.Sleep(s.TimeStep)
			continue
		}
		if len(enabled) > 0 || len(events) > 0 {
			s.idleSteps = 0
		}
		if len(enabled) == 0 && len(events) == 0 {
			if !s.AllDone() {
				s.Deadlock = true
				s.mu.Lock()
				for _, t := range s.threads {
					if t.done {
						continue
					}
					if t.parked {
						s.Blocked = append(s.Blocked, fmt.Sprintf("%s@%s(blocked)", t.name, t.op))
					} else if t.harness {
						s.Blocked = append(s.Blocked, fmt.Sprintf("%s(in runtime wait after %s)", t.name, t.op))
					}
				}
				s.mu.Unlock()
			}
			return steps
		}
		if steps >= s.MaxSteps {
			s.Wedged = "step horizon reached"
			return steps
		}

		// canonical order: the running thread first when it is still enabled and not yielding,
		// then the other non-yielding threads by id, then events, then yielding threads.
		sort.SliceStable(enabled, func(i, j int) bool { return enabled[i].id < enabled[j].id })
		if s.FairAfter > 0 && run != nil && s.consec >= s.FairAfter && len(enabled) > 1 {
			for _, t := range enabled {
				if t == run {
					t.yield = true
				}
			}
			s.consec = 0
		}
		var order []*thread
		runningEnabled := false
		for _, t := range enabled {
			if t == run && !t.yield {
				order = append(order, t)
				runningEnabled = true
			}
		}
		for _, t := range enabled {
			if t != run && !t.yield {
				order = append(order, t)
			}
		}
		nNormal := len(order)
		var yielders []*thread
		for _, t := range enabled {
			if t.yield {
				yielders = append(yielders, t)
			}
		}
		n := nNormal + len(events) + len(yielders)
		costs := make([]int, n)
		for i := 0; i < n; i++ {
			switch {
			case i < nNormal:
				if runningEnabled && i > 0 {
					costs[i] = 1
				}
			case i < nNormal+len(events):
				costs[i] = events[i-nNormal].Cost
				if runningEnabled {
					costs[i]++
				}
			default:
				if runningEnabled {
					costs[i] = 1
				}
			}
		}
		// only yielders enabled: livelock accounting
		if nNormal == 0 && len(events) == 0 {
			s.yieldRun++
			if s.yieldRun > s.YieldCap {
				s.Livelock = true
				for _, t := range yielders {
					s.Blocked = append(s.Blocked, fmt.Sprintf("%s@yield(spinning)", t.name))
				}
				for _, t := range blocked {
					s.Blocked = append(s.Blocked, fmt.Sprintf("%s@%s(blocked)", t.name, t.op))
				}
				return steps
			}
		} else {
			s.yieldRun = 0
		}
		// make option 0 cost 0 always (the default continuation)
		base := costs[0]
		if base != 0 {
			for i := range costs {
				costs[i] -= base
				if costs[i] < 0 {
					costs[i] = 0
				}
			}
		}
		label := func(i int) string {
			switch {
			case i < nNormal:
				return order[i].name + ":" + order[i].op
			case i < nNormal+len(events):
				return "event:" + events[i-nNormal].Name
			default:
				y := yielders[i-nNormal-len(events)]
				return y.name + ":yield"
			}
		}
		kind := "thread"
		pick := s.c.Choose(kind, n, costs, label)
		if s.c.Truncated {
			s.Wedged = "chooser horizon reached"
			return steps
		}
		steps++
		switch {
		case pick < nNormal:
			s.release(order[pick])
		case pick < nNormal+len(events):
			s.mu.Lock()
			s.running = nil
			s.mu.Unlock()
			events[pick-nNormal].Fire()
		default:
			s.release(yielders[pick-nNormal-len(events)])
		}
	}
}

func (s *Sched) release(t *thread) {
	s.mu.Lock()
	t.parked = false
	t.steps++
	if s.running == t {
		s.consec++
	} else {
		s.consec = 0
	}
	s.running = t
	s.mu.Unlock()
	t.gate <- struct{}{}
}

// Describe returns a one-line description of all threads (for diagnostics).
func (s *Sched) Describe() string {
	s.mu.Lock()
	defer s.mu.Unlock()
	var b strings.Builder
	for _, t := range s.threads {
		st := "running"
		if t.done {
			st = "done"
		} else if t.parked {
			st = "parked@" + t.op
		}
		fmt.Fprintf(&b, "%s[%s] ", t.name, st)
	}
	return b.String()
}

// Advance moves virtual time forward by d (the controller sleeps; timers due in that span fire in
// time order and run to quiescence or to their next point).
func Advance(d time.Duration) {
	time.Sleep(d)
	synctest.Wait()
}

// Bubble runs f inside a fresh synctest bubble. A panic of the bubble's root goroutine is recovered
// and returned (a Divergence is re-raised outside the bubble so the explorer can classify it).
func Bubble(t *testing.T, f func()) (panicked any) {
	// Real-time watchdog (outside the bubble): an execution normally takes about a millisecond; one
	// that has not finished after HangAfter of wall time is spinning without ever blocking (the bubble
	// cannot reach quiescence). The process then records the goroutine dump and exits with code 3;
	// the runner reports it as an "execution-hang" for checks that opted in, as a harness crash otherwise.
	wd := time.AfterFunc(HangAfter, func() {
		buf := make([]byte, 1<<20)
		n := runtime.Stack(buf, true)
		r := Rep()
		r.mu.Lock()
		r.Hang = string(buf[:n])
		r.mu.Unlock()
		r.Flush()
		os.Exit(3)
	})
	defer wd.Stop()
	synctest.Test(t, func(_ *testing.T) {
		defer func() {
			if p := recover(); p != nil {
				panicked = p
				if s := last.Load(); s != nil {
					s.Stop()
					for _, f := range s.cleanups {
						f()
					}
				}
				// let pending timers run so that goroutines waiting on virtual time can finish
				for i := 0; i < 100; i++ {
					time.Sleep(100 * time.Millisecond)
				}
				cur.Store(nil)
			}
		}()
		last.Store(nil)
		f()
	})
	last.Store(nil)
	if d, ok := panicked.(Divergence); ok {
		panic(d)
	}
	return panicked
}

func settle() { synctest.Wait() }
