// Package vsched is the exploration engine: a choice-sequence enumerator (deviation-bounded DFS),
// a controlled scheduler for real goroutines inside a testing/synctest bubble, and the report writer.
//
// It is added to the goakt module as a virtual package through `go test -overlay`
// (import path github.com/tochemey/goakt/v4/internal/verif/vsched); /repo is never modified.
package vsched

import (
	"fmt"
)

// Decision is one recorded choice point of an execution.
type Decision struct {
	N      int    // number of options
	Chosen int    // option taken
	Costs  []int  // deviation cost of each option (Costs[0]==0 by convention)
	Before int    // cumulative deviation cost before this decision
	Label  string // human readable description of the option taken
	Kind   string // "thread", "event", "fault", "env"
}

// Divergence is raised (as a panic value) when a replayed prefix does not fit the execution.
type Divergence struct{ Msg string }

func (d Divergence) Error() string { return "DIVERGENCE: " + d.Msg }

// Chooser replays a prefix of choices, then takes option 0 at every later decision, recording
// everything. An execution is a deterministic function of its choice sequence.
type Chooser struct {
	prefix []int
	Trace  []Decision
	cost   int
	// MaxDecisions is a safety horizon; exceeding it marks the execution as truncated.
	MaxDecisions int
	Truncated    bool
}

func NewChooser(prefix []int) *Chooser {
	return &Chooser{prefix: prefix, MaxDecisions: 100000}
}

// Cost returns the cumulative deviation cost so far.
func (c *Chooser) Cost() int { return c.cost }

// Choose picks among n options. costs may be nil (all alternatives cost 0) or have length n.
// labels may be nil.
func (c *Chooser) Choose(kind string, n int, costs []int, labels func(i int) string) int {
	if n <= 0 {
		panic("vsched: Choose with no options")
	}
	if len(c.Trace) >= c.MaxDecisions {
		c.Truncated = true
		return 0
	}
	i := len(c.Trace)
	pick := 0
	if i < len(c.prefix) {
		pick = c.prefix[i]
		if pick < 0 || pick >= n {
			panic(Divergence{fmt.Sprintf("decision %d: replayed choice %d out of range (n=%d, kind=%s)", i, pick, n, kind)})
		}
	}
	cs := make([]int, n)
	if costs != nil {
		copy(cs, costs)
	}
	d := Decision{N: n, Chosen: pick, Costs: cs, Before: c.cost, Kind: kind}
	if labels != nil {
		d.Label = labels(pick)
	}
	c.cost += cs[pick]
	c.Trace = append(c.Trace, d)
	return pick
}

// Choices returns the full choice sequence of this execution.
func (c *Chooser) Choices() []int {
	out := make([]int, len(c.Trace))
	for i, d := range c.Trace {
		out[i] = d.Chosen
	}
	return out
}

// NonDefault counts decisions where a non-zero option was taken.
func (c *Chooser) NonDefault() int {
	n := 0
	for _, d := range c.Trace {
		if d.Chosen != 0 {
			n++
		}
	}
	return n
}
