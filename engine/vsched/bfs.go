package vsched

import (
	"fmt"
	"time"
)

// ---------------------------------------------------------------------------------------------
// Engine Q: explicit-state search and bounded-exhaustive enumeration on the real code.
// ---------------------------------------------------------------------------------------------

// StepResult is what executing one history on a fresh real object (in lock-step with the reference
// model) reports.
type StepResult struct {
	Canon      string      // canonical, property-relevant dump of the reached state (dedup key)
	Obs        string      // observation of the last operation (what the oracle compared)
	Violations []Violation // oracle failures found while executing the history
	Dead       bool        // no successors wanted from this state (e.g. object closed)
}

// BFSConfig configures an explicit-state search where a state is the history that reaches it.
type BFSConfig struct {
	Scenario  string
	Depth     int
	MaxStates int64 // 0 = unlimited
	Params    map[string]any
	// ShardFirstOp distributes the depth-1 sub-trees over the shards (each shard dedups on its own).
	ShardFirstOp bool
	Deadline     time.Time
}

// BFS explores every operation sequence up to cfg.Depth breadth first. alphabet returns the
// operations enabled after hist; exec replays a complete history on a fresh implementation instance
// next to the reference model (successor = replay of the shortest path + one operation: live objects
// rarely clone) and returns the canonical state and any oracle failure. Histories whose canonical
// state was already reached are not extended (merged states must have equal futures: the
// canonicalisation argument is the harness's obligation, written next to its canon function).
func BFS[Op any](cfg BFSConfig, alphabet func(hist []Op) []Op, exec func(hist []Op) StepResult, show func(op Op) string) *ScenarioStats {
	r := Rep()
	st := r.NewScenario(cfg.Scenario, "states")
	st.Bound = cfg.Depth
	st.BoundCompleted = -1
	st.Params = cfg.Params
	if scen := r.ReplayScenario(); scen != "" {
		st.Capped = "skipped (replay mode: BFS scenarios replay through their written-out case)"
		return st
	}
	seen := map[uint64]struct{}{}
	type node struct{ hist []Op }
	frontier := []node{{nil}}
	root := exec(nil)
	seen[Hash64(root.Canon)] = struct{}{}
	st.States = 1
	for depth := 1; depth <= cfg.Depth; depth++ {
		var next []node
		for _, n := range frontier {
			ops := alphabet(n.hist)
			for oi, op := range ops {
				if depth == 1 && cfg.ShardFirstOp && !r.OwnsIndex(int64(oi)) {
					continue
				}
				if !r.TimeLeft() || (!cfg.Deadline.IsZero() && time.Now().After(cfg.Deadline)) {
					st.Capped = fmt.Sprintf("wall budget reached at depth %d", depth)
					return st
				}
				if cfg.MaxStates > 0 && st.States >= cfg.MaxStates {
					st.Capped = fmt.Sprintf("state cap %d reached at depth %d", cfg.MaxStates, depth)
					return st
				}
				h := make([]Op, len(n.hist)+1)
				copy(h, n.hist)
				h[len(n.hist)] = op
				res := exec(h)
				st.Transitions++
				st.Executions++
				st.Decisions += int64(len(h))
				if len(h) > st.MaxDecisions {
					st.MaxDecisions = len(h)
				}
				st.Observe(res.Obs, len(h) > 1)
				if len(st.Samples) < 3 && (len(h) >= cfg.Depth || len(h) >= 3) {
					st.Sample(map[string]any{"history": showAll(h, show), "observation": trunc(res.Obs, 300), "state": trunc(res.Canon, 300)})
				}
				for _, v := range res.Violations {
					r.ReportViolation(cfg.Scenario, v, map[string]any{"history": showAll(h, show), "params": cfg.Params})
				}
				k := Hash64(res.Canon)
				if _, ok := seen[k]; ok {
					continue
				}
				seen[k] = struct{}{}
				st.States++
				if !res.Dead {
					next = append(next, node{h})
				}
			}
		}
		st.BoundCompleted = depth
		frontier = next
		if len(frontier) == 0 {
			st.BoundCompleted = cfg.Depth
			break
		}
	}
	return st
}

func showAll[Op any](h []Op, show func(Op) string) []string {
	out := make([]string, len(h))
	for i, op := range h {
		if show != nil {
			out[i] = show(op)
		} else {
			out[i] = fmt.Sprint(op)
		}
	}
	return out
}

// Enum is a bounded-exhaustive enumeration of a stated finite input domain.
type Enum struct {
	St     *ScenarioStats
	name   string
	r      *Report
	idx    int64
	inputs map[uint64]struct{}
	dl     time.Time
}

// NewEnum starts an input-domain enumeration scenario. total (if known, else 0) is recorded.
func NewEnum(name string, params map[string]any) *Enum {
	r := Rep()
	st := r.NewScenario(name, "inputs")
	st.Params = params
	st.BoundCompleted = 0
	return &Enum{St: st, name: name, r: r, inputs: map[uint64]struct{}{}}
}

// Mine reports whether the next case (in enumeration order) belongs to this shard; call it exactly
// once per case, before doing the work. It returns false for every case once the budget is gone.
func (e *Enum) Mine() bool {
	i := e.idx
	e.idx++
	if !e.r.OwnsIndex(i) {
		return false
	}
	if e.St.Capped == "" && !e.r.TimeLeft() {
		e.St.Capped = fmt.Sprintf("wall budget reached after %d cases", e.St.Executions)
	}
	return e.St.Capped == ""
}

// Case records one evaluated case: input is its written-out input (distinct inputs are counted as
// states), obs the observation compared with the reference, implCalls the number of calls into the
// real code that were checked, nontrivial whether the case is non-trivial by the scenario's rule.
func (e *Enum) Case(input, obs string, implCalls int, nontrivial bool) {
	e.St.Executions++
	e.St.Transitions += int64(implCalls)
	if len(e.inputs) < 3000000 {
		e.inputs[Hash64(input)] = struct{}{}
		e.St.States = int64(len(e.inputs))
	} else {
		e.St.States++ // beyond the set's cap inputs are counted without dedup (enumerations do not repeat inputs)
	}
	e.St.Observe(obs, nontrivial)
	if len(e.St.Samples) < 2 || (nontrivial && len(e.St.Samples) < 4) {
		e.St.Sample(map[string]any{"input": trunc(input, 300), "observation": trunc(obs, 300)})
	}
}

// Fail reports a violation for the case described by input.
func (e *Enum) Fail(sig, input, format string, a ...any) {
	e.r.ReportViolation(e.name, Violation{Signature: sig, Detail: fmt.Sprintf(format, a...)}, map[string]any{"input": input})
}

// Done marks the enumeration complete (exhaustive unless a cap was hit).
func (e *Enum) Done() {
	if e.St.Capped == "" {
		e.St.Bound = 0
		e.St.BoundCompleted = 0
	} else {
		e.St.Bound = 1
	}
}
