package seqmc
